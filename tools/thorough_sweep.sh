#!/bin/bash
# thorough tier of every property, one after the other (used with `vp run --with-repo`: the
# snapshot's harness is pointed at the repo snapshot so that edits to /repo do not disturb it)
cd "$(dirname "$0")/.."
if [ -n "$VP_RUN_REPO" ]; then sed -i "s#path = \"/repo\"#path = \"$VP_RUN_REPO\"#" harness/Cargo.toml harness/fuzz/Cargo.toml 2>/dev/null; fi
for p in ${@:-C03 C05 C10 C11 C12 C14 C15 C18 C01 C02 C17 C13 C16 C09 C07 C08 C06 C04}; do
  s=$(date +%s)
  out=$(./vcheck $p thorough 2>&1); rc=$?
  echo "### $p rc=$rc $(( $(date +%s) - s ))s :: $(echo "$out" | grep -v '^KNOWN\|^  \|^note' | tail -1 | cut -c1-200)"
  echo "$out" | grep '^violation\|^INCONCLUSIVE\|^VIOLATION' | cut -c1-600 | head -12
done
