#!/usr/bin/env python3
"""Regenerates the seeded-change table of DESIGN.md (section 10.5) from seeded/*/meta.json."""
import glob, json, os, re, subprocess
root = os.path.dirname(os.path.dirname(os.path.abspath(__file__)))
rows = []
for d in sorted(glob.glob(os.path.join(root, 'seeded', 's*-C*')), key=lambda p: (p.split('-')[-1], p)):
    m = json.load(open(os.path.join(d, 'meta.json')))
    files = [l[6:].strip().replace('src/', '') for l in open(os.path.join(d, 'patch.diff')) if l.startswith('+++ b/')]
    rows.append('| `%s` | %s | %s | %s | %s |' % (os.path.basename(d), m['property'], ', '.join(files), m['needs_to_manifest'].replace('|', '/'), m['detected_by'].replace('|', '/')))
table = '| seeded change | property | touches | needs, in order to manifest | detected by |\n|---|---|---|---|---|\n' + '\n'.join(rows) + '\n'
p = os.path.join(root, 'DESIGN.md')
s = open(p).read()
a = s.index('| seeded change | property | touches |')
b = s.index('\n\n', a)
s = s[:a] + table.rstrip('\n') + s[b:]
open(p, 'w').write(s)
print(len(rows), 'rows')
