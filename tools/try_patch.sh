#!/bin/bash
# usage: tools/try_patch.sh <patch.diff> <tier> <ID>...   — apply a seeded change to /repo, run the given
# checks, and restore /repo straight afterwards. Prints one line per check: "<ID> rc=<n> <last line>".
set -u
PATCH=$(readlink -f "$1"); TIER=$2; shift 2
cd /verif
if ! git -C /repo diff --quiet; then echo "refusing: /repo has uncommitted changes"; exit 2; fi
if ! git -C /repo apply --check "$PATCH" 2>/dev/null; then echo "patch does not apply"; exit 2; fi
# evidence written while a seeded change is applied must not stay in /verif/evidence
EVBAK=$(mktemp -d)
cp -a /verif/evidence/. "$EVBAK"/ 2>/dev/null
git -C /repo apply "$PATCH"
trap 'git -C /repo checkout -- . ; git -C /repo clean -fdq -- src; rm -rf /verif/evidence; mkdir -p /verif/evidence; cp -a "$EVBAK"/. /verif/evidence/; rm -rf "$EVBAK"' EXIT
for id in "$@"; do
  out=$(./vcheck "$id" "$TIER" 2>&1); rc=$?
  nv=$(echo "$out" | grep -c '^VIOLATION')
  echo "$id rc=$rc violations=$nv :: $(echo "$out" | grep '^violation' | head -2 | cut -c1-220 | tr '\n' '|')"
done
