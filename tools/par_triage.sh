#!/bin/bash
# usage: tools/par_triage.sh <harness-src-dir> <tier> <name>...   (development aid, not a registered check)
# Runs a seeded change against a scratch copy: /tmp/m/<name>/{repo (worktree + patch), verif (copy of /verif with
# the harness sources taken from <harness-src-dir>)}. Several can run side by side; /repo itself is not touched.
# The confirming run of record is tools/try_patch.sh, which applies the change to /repo.
HSRC=$1; TIER=$2; shift 2
one() {
  name=$1; id=${name#*-}
  d=${MROOT:-/tmp/m}/$name; rm -rf $d; mkdir -p $d
  git -C /repo worktree add --detach $d/repo HEAD >/dev/null 2>&1
  git -C $d/repo apply /verif/seeded/$name/patch.diff || { echo "$name: patch does not apply"; return; }
  rsync -a --exclude target --exclude .git --exclude work --exclude replays --exclude harness /verif/ $d/verif/
  rsync -a --exclude target --exclude fuzz $HSRC/ $d/verif/harness/; rsync -a --exclude fuzz /verif/harness/target $d/verif/harness/
  sed -i "s#^mp4 = .*#mp4 = { path = \"$d/repo\" }#" $d/verif/harness/Cargo.toml
  out=$(cd $d/verif && VERIF_ROOT=$d/verif ./vcheck $id $TIER 2>&1); rc=$?
  echo "$name rc=$rc violations=$(echo "$out" | grep -c '^VIOLATION') :: $(echo "$out" | grep '^violation' | head -2 | cut -c1-200 | tr '\n' '|') $(echo "$out" | grep -i 'inconclusive\|BUILD FAILED' | head -2 | cut -c1-160 | tr '\n' '|')"
  git -C /repo worktree remove --force $d/repo; rm -rf $d
}
export -f one; export HSRC TIER
printf '%s\n' "$@" | xargs -P ${PAR:-5} -I{} bash -c 'one {}'
