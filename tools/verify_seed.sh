#!/bin/bash
# usage: tools/verify_seed.sh <round-dir> <Cxx> <name>  — confirm a sub-agent's seeded change in its scratch worktree
# (<round-dir>/<Cxx>/{wt,out,target}) and copy it to /verif/seeded/<name>/. Prints a one-line verdict.
set -u
R=$1; P=$2; NAME=$3
d=$R/$P; wt=$d/wt
export CARGO_TARGET_DIR=$d/target CARGO_NET_OFFLINE=true
cd "$wt" || exit 2
git checkout -q -- . ; rm -f tests/demo_seeded.rs
[ -s "$d/out/patch.diff" ] || { echo "$P: no patch"; exit 2; }
git apply "$d/out/patch.diff" || { echo "$P: patch does not apply"; exit 2; }
if git status --short | grep -v '^ M src/' | grep -q .; then echo "$P: touches files outside src: $(git status --short | tr '\n' ' ')"; fi
suite=$(cargo test --offline 2>&1 | grep '^test result' | tr '\n' ' ')
echo "$suite" | grep -q 'FAILED\|[1-9][0-9]* failed' && { echo "$P: SUITE RED with patch: $suite"; exit 1; }
cp "$d/out/demo.rs" tests/demo_seeded.rs
cargo test --offline --test demo_seeded >/dev/null 2>&1; with=$?
git checkout -q -- src
cargo test --offline --test demo_seeded >/dev/null 2>&1; without=$?
rm -f tests/demo_seeded.rs
npass=$(echo "$suite" | grep -o '[0-9]* passed' | awk '{s+=$1} END{print s}')
echo "$P: suite_with_patch_passed=$npass demo_with=$with demo_without=$without"
if [ "$with" != 0 ] && [ "$without" = 0 ] && [ "$npass" -ge 65 ]; then
  mkdir -p /verif/seeded/$NAME
  cp "$d/out/patch.diff" "$d/out/demo.rs" /verif/seeded/$NAME/
  cp "$d/out/notes.md" /verif/seeded/$NAME/ 2>/dev/null
  echo "$P: CONFIRMED -> seeded/$NAME"
else
  echo "$P: NOT CONFIRMED"
fi
