//! proptest strategies (built by construction; dependent structure is derived by interpreting
//! independent raw choices so that shrinking stays effective) and small-scope enumerators.

use crate::refmp4::movie::*;
use crate::refmp4::{cc, Cc};
use proptest::prelude::*;
use proptest::strategy::ValueTree;
use proptest::test_runner::TestRunner;

pub type Runner = TestRunner;

/// deterministic runner for drawing single values outside a property run
pub fn fixed_runner(seed: u8) -> TestRunner {
    TestRunner::new_with_rng(proptest::test_runner::Config::default(), proptest::test_runner::TestRng::from_seed(proptest::test_runner::RngAlgorithm::ChaCha, &[seed; 32]))
}

pub fn draw<S: Strategy>(s: &S, runner: &mut TestRunner) -> S::Value {
    s.new_tree(runner).expect("strategy").current()
}

pub fn size_strategy() -> impl Strategy<Value = u32> {
    prop_oneof![
        3 => Just(0u32),
        3 => Just(1u32),
        6 => 1u32..8,
        3 => 8u32..64,
        1 => 64u32..300,
    ]
}

/// sample sizes around and beyond the 64 KiB mark and at 1 MiB (readers and writers that buffer
/// in steps or treat large samples specially)
pub const BIG_SIZES: [u32; 9] = [65_535, 65_536, 65_537, 70_001, 131_072, 131_073, 200_003, 1 << 20, (1 << 20) + 1];

/// Legal content that is part of the logical movie (not layout): a header-only edts on tracks
/// without edit list (1 in 6), a constant sample_size in the empty stsz of fragmented tracks (1 in
/// 3), a chunk whose offset is 0 (1 in 24 of the movies with table samples). `x` selects.
pub fn logical_extras(m: &mut Movie, x: u16) {
    let x = x as usize;
    m.empty_edts = x % 6 == 1;
    m.frag_stsz_size = if x % 3 == 0 { 1 + (x % 1000) as u32 } else { 0 };
    if x % 24 == 5 {
        let cands: Vec<(usize, usize)> = m.tracks.iter().enumerate().flat_map(|(ti, t)| (0..t.chunks.len()).map(move |ci| (ti, ci))).collect();
        if !cands.is_empty() {
            m.zero_chunk = Some(cands[(x / 24) % cands.len()]);
        }
    }
}

/// With probability `weight`, one sample of the movie (table or fragment run) gets a size from
/// `BIG_SIZES`; everything else about the movie is unchanged.
/// Also, with probability 0.08, the last top-level box (when it is an mdat) is written with size 0,
/// i.e. "to the end of the file"; with probability 0.03 the file is physically larger than 4 GiB
/// (a top-level free box of about 4 or 5 GiB after ftyp, after the second box, or at the end).
pub fn with_big_sample<S: Strategy<Value = Movie>>(s: S, weight: f64) -> impl Strategy<Value = Movie> {
    let huge = prop::option::weighted(0.03, (0u8..3, prop_oneof![Just((1u64 << 32) - 24), Just((1u64 << 32) - 16), Just(1u64 << 32), Just((1u64 << 32) + 1), Just(5u64 << 30)]));
    (s, prop::bool::weighted(weight), any::<u16>(), 0usize..BIG_SIZES.len(), prop::bool::weighted(0.08), huge).prop_map(|(mut m, on, frac, cls, to_eof, huge)| {
        m.last_to_eof = to_eof;
        m.huge = huge;
        logical_extras(&mut m, frac);
        if on {
            let mut slots: Vec<(usize, usize, usize)> = Vec::new(); // (0, track, sample) | (1 + frag, traf, sample)
            for (ti, t) in m.tracks.iter().enumerate() {
                for k in 0..t.samples.len() {
                    slots.push((0, ti, k));
                }
            }
            for (fi, f) in m.frags.iter().enumerate() {
                for (xi, tr) in f.trafs.iter().enumerate() {
                    if tr.has_trun && tr.trun_size {
                        for k in 0..tr.samples.len() {
                            slots.push((1 + fi, xi, k));
                        }
                    }
                }
            }
            if !slots.is_empty() {
                let (a, b, k) = slots[(frac as usize * slots.len()) >> 16];
                if a == 0 {
                    m.tracks[b].samples[k].size = BIG_SIZES[cls];
                } else {
                    m.frags[a - 1].trafs[b].samples[k].size = BIG_SIZES[cls];
                }
            }
        }
        m
    })
}

pub fn dur_strategy() -> impl Strategy<Value = u32> {
    prop_oneof![
        2 => Just(0u32),
        3 => Just(1u32),
        4 => 1u32..10,
        3 => 10u32..5000,
        2 => Just(1000u32),
        1 => any::<u32>(),
        1 => Just(u32::MAX),
    ]
}

pub fn cts_strategy() -> impl Strategy<Value = i32> {
    prop_oneof![
        6 => Just(0i32),
        3 => 1i32..100,
        2 => -100i32..0,
        1 => any::<i32>(),
        1 => Just(i32::MIN),
        1 => Just(i32::MAX),
    ]
}

pub fn timescale_strategy() -> impl Strategy<Value = u32> {
    prop_oneof![
        2 => Just(1u32),
        1 => Just(2u32),
        1 => Just(3u32),
        1 => Just(10u32),
        3 => Just(1000u32),
        2 => Just(90000u32),
        1 => Just(44100u32),
        1 => Just(1u32 << 31),
        1 => Just(u32::MAX),
        2 => 1u32..=u32::MAX,
    ]
}

pub fn lang_strategy() -> impl Strategy<Value = [u8; 3]> {
    prop_oneof![
        2 => Just(*b"und"),
        1 => Just(*b"eng"),
        3 => (b'a'..=b'z', b'a'..=b'z', b'a'..=b'z').prop_map(|(a, b, c)| [a, b, c]),
    ]
}

pub fn cc_strategy() -> impl Strategy<Value = Cc> {
    prop_oneof![
        Just(cc("isom")),
        Just(cc("mp42")),
        Just(cc("iso5")),
        Just(cc("avc1")),
        Just(cc("qt  ")),
        Just(cc("M4A ")),
        Just(cc("dash")),
        Just(cc("ISOM")),
        any::<[u8; 4]>(),
    ]
}

pub fn codec_strategy() -> impl Strategy<Value = Codec> {
    prop_oneof![
        (any::<u16>(), any::<u16>(), prop::collection::vec(any::<u8>(), 4..12), prop::collection::vec(any::<u8>(), 0..6))
            .prop_map(|(width, height, sps, pps)| Codec::Avc { width, height, sps, pps }),
        (any::<u16>(), any::<u16>()).prop_map(|(width, height)| Codec::Hevc { width, height }),
        (any::<u16>(), any::<u16>()).prop_map(|(width, height)| Codec::Vp9 { width, height }),
        (prop_oneof![Just(2u8), 1u8..=30], 0u8..=12, 1u8..=7, any::<u32>())
            .prop_map(|(object_type, freq_index, chan, bitrate)| Codec::Aac { object_type, freq_index, chan, bitrate }),
        Just(Codec::Ttxt),
    ]
}

/// raw per-sample choices; chunk composition and run groupings are derived from the bools
#[derive(Clone, Debug)]
pub struct RawSample {
    pub size: u32,
    pub dur: u32,
    pub cts: i32,
    pub sync: bool,
    pub chunk_break: bool,
    pub stsc_break: bool,
    pub stts_break: bool,
    pub ctts_break: bool,
}

pub fn raw_sample() -> impl Strategy<Value = RawSample> {
    (
        size_strategy(),
        dur_strategy(),
        cts_strategy(),
        any::<bool>(),
        prop::bool::weighted(0.4),
        prop::bool::weighted(0.25),
        prop::bool::weighted(0.15),
        prop::bool::weighted(0.15),
    )
        .prop_map(|(size, dur, cts, sync, chunk_break, stsc_break, stts_break, ctts_break)| RawSample { size, dur, cts, sync, chunk_break, stsc_break, stts_break, ctts_break })
}

#[derive(Clone, Debug)]
pub struct TrackOpts {
    pub co64: bool,
    pub fixed_stsz: bool,
    pub uniform_size: Option<u32>,
    pub uniform_dur: Option<u32>,
    pub has_ctts: bool,
    pub has_stss: bool,
    pub sync_mode: u8, // 0 = as drawn, 1 = none sync, 2 = all sync, 3 = first only
}

pub fn track_opts() -> impl Strategy<Value = TrackOpts> {
    (
        any::<bool>(),
        any::<bool>(),
        prop::option::weighted(0.35, prop_oneof![1u32..8, 1u32..100]),
        prop::option::weighted(0.3, prop_oneof![Just(1u32), 1u32..3000]),
        any::<bool>(),
        prop::bool::weighted(0.7),
        0u8..4,
    )
        .prop_map(|(co64, fixed_stsz, uniform_size, uniform_dur, has_ctts, has_stss, sync_mode)| TrackOpts { co64, fixed_stsz, uniform_size, uniform_dur, has_ctts, has_stss, sync_mode })
}

pub fn assemble_track(id: u32, codec: Codec, timescale: u32, lang: [u8; 3], raw: &[RawSample], o: &TrackOpts) -> Track {
    let n = raw.len();
    let mut samples: Vec<Sample> = raw
        .iter()
        .enumerate()
        .map(|(i, r)| Sample {
            size: o.uniform_size.unwrap_or(r.size),
            dur: o.uniform_dur.unwrap_or(r.dur),
            cts: if o.has_ctts { r.cts } else { 0 },
            sync: match o.sync_mode {
                1 => false,
                2 => true,
                3 => i == 0,
                _ => r.sync,
            },
        })
        .collect();
    if !o.has_stss {
        for s in samples.iter_mut() {
            s.sync = true;
        }
    }
    // keep the summed media duration below 2^63 and each start time in u64: always true for u32 deltas
    let mut chunks: Vec<u32> = Vec::new();
    let mut cur = 0u32;
    for (i, r) in raw.iter().enumerate() {
        cur += 1;
        if r.chunk_break || i + 1 == n {
            chunks.push(cur);
            cur = 0;
        }
    }
    let stsc_breaks: Vec<bool> = (0..chunks.len()).map(|i| raw.get(i).map(|r| r.stsc_break).unwrap_or(false)).collect();
    Track {
        id,
        codec,
        timescale,
        lang,
        samples,
        chunks,
        stsc_breaks,
        co64: o.co64,
        fixed_stsz: o.fixed_stsz,
        stts_breaks: raw.iter().map(|r| r.stts_break).collect(),
        has_ctts: o.has_ctts,
        ctts_breaks: raw.iter().map(|r| r.ctts_break).collect(),
        has_stss: o.has_stss,
        trex_dur: 0,
        trex_size: 0,
        trex_flags: 0,
        elst: None,
    }
}

pub fn table_track(id: u32, max_samples: usize) -> impl Strategy<Value = Track> {
    (codec_strategy(), timescale_strategy(), lang_strategy(), prop::collection::vec(raw_sample(), 0..=max_samples), track_opts())
        .prop_map(move |(codec, ts, lang, raw, o)| assemble_track(id, codec, ts, lang, &raw, &o))
}

pub fn movie_shell(tracks: Vec<Track>) -> Movie {
    Movie {
        major: cc("isom"),
        minor: 512,
        compat: vec![cc("isom"), cc("iso2")],
        timescale: 1000,
        tracks,
        frags: vec![],
        meta: None,
        mdat_first: false,
        interleave: 0,
        gap: 0,
        mehd: None,
        emsg: None,
        xforms: vec![],
        large_moof: false,
        last_to_eof: false,
        hdlr_name: None,
        moov_meta: None,
        frag_mdhd_dur: 0,
        huge: None,
        frag_stsz_size: 0,
        empty_edts: false,
        zero_chunk: None,
    }
}

/// edit lists and (for non-fragmented movies) a movie-extends box: neither takes part in sample
/// lookup, so both are pure decoration for C03/C09/C12; drawn from one word `x`
pub fn decorate(m: &mut Movie, x: u32, allow_mvex: bool) {
    if x % 5 == 0 {
        for (i, t) in m.tracks.iter_mut().enumerate() {
            if (x >> (8 + i)) & 1 == 1 || i == 0 {
                let media_time = match (x >> 4) % 4 {
                    0 => 1 + (x >> 16) as u64 % 5000,
                    1 => 1024,
                    2 => (1u64 << 32) + (x >> 20) as u64,
                    _ => 0,
                };
                let mut el = vec![(1000 + (x >> 12) as u64 % 100_000, media_time)];
                if (x >> 3) & 1 == 1 {
                    // a leading empty edit (media_time -1 in the 32-bit form) in front of the real one
                    el.insert(0, (40, if media_time > u32::MAX as u64 { u64::MAX } else { u32::MAX as u64 }));
                }
                t.elst = Some(el);
            }
        }
    }
    if allow_mvex && x % 7 == 3 && m.frags.is_empty() {
        // a movie-extends box in a file that has no fragments (e.g. a finalised recording)
        m.mehd = Some(((x >> 5) as u8 & 1, (x >> 8) as u64));
    }
}

/// names of real iTunes items the library has no accessor for (all of them "unknown items" to C18)
pub fn itunes_atom_name() -> impl Strategy<Value = Cc> {
    const NAMES: [&[u8; 4]; 48] = [
        b"\xa9ART", b"\xa9wrt", b"\xa9cmt", b"\xa9gen", b"\xa9grp", b"\xa9lyr", b"\xa9enc", b"\xa9alb", b"\xa9des", b"\xa9cpy", b"cprt", b"gnre", b"disk", b"tmpo", b"cpil", b"pgap",
        b"rtng", b"stik", b"pcst", b"catg", b"keyw", b"purl", b"egid", b"tvsh", b"tven", b"tvsn", b"tves", b"tvnn", b"ldes", b"sdes", b"sonm", b"soar",
        b"soal", b"soco", b"sosn", b"apID", b"cnID", b"atID", b"plID", b"geID", b"sfID", b"akID", b"hdvd", b"purd", b"xid ", b"ownr", b"titl", b"dscp",
    ];
    (0usize..NAMES.len()).prop_map(|i| *NAMES[i])
}

/// non-fragmented movie with consistent sample tables
pub fn table_movie(max_tracks: usize, max_samples: usize) -> impl Strategy<Value = Movie> {
    let tracks = prop_oneof![
        3 => prop::collection::vec(table_track(0, max_samples), 1..=1),
        2 => prop::collection::vec(table_track(0, max_samples), 2..=max_tracks.max(2)),
    ];
    (tracks, timescale_strategy(), any::<bool>(), prop_oneof![Just(0u64), any::<u64>()], prop_oneof![3 => Just(0u8), 1 => 1u8..9], prop::collection::vec(cc_strategy(), 0..3), any::<u32>(), cc_strategy(), any::<u32>())
        .prop_map(|(mut tracks, ts, mdat_first, interleave, gap, compat, minor, major, deco)| {
            for (i, t) in tracks.iter_mut().enumerate() {
                t.id = i as u32 + 1;
            }
            let mut m = movie_shell(tracks);
            m.timescale = ts;
            m.mdat_first = mdat_first;
            m.interleave = interleave;
            m.gap = gap;
            m.compat = compat;
            m.minor = minor;
            m.major = major;
            decorate(&mut m, deco, true);
            m
        })
}

// ------------------------------------------------------------------------------------------
// Small-scope enumeration: every composition of n into chunks x every run-length grouping
// ------------------------------------------------------------------------------------------

/// compositions of n as chunk lengths, in a fixed order (bitmask over the n-1 gaps)
pub fn compositions(n: usize) -> Vec<Vec<u32>> {
    if n == 0 {
        return vec![vec![]];
    }
    let mut out = Vec::new();
    for mask in 0u32..(1u32 << (n - 1)) {
        let mut chunks = Vec::new();
        let mut cur = 1u32;
        for g in 0..n - 1 {
            if mask & (1 << g) != 0 {
                chunks.push(cur);
                cur = 1;
            } else {
                cur += 1;
            }
        }
        chunks.push(cur);
        out.push(chunks);
    }
    out
}

/// all distinct run-length groupings of a chunk map: a break may be forced only where
/// samples-per-chunk equals the previous chunk's (elsewhere a new entry starts anyway)
pub fn groupings(chunks: &[u32]) -> Vec<Vec<bool>> {
    let free: Vec<usize> = (1..chunks.len()).filter(|i| chunks[*i] == chunks[*i - 1]).collect();
    let mut out = Vec::new();
    for mask in 0u32..(1u32 << free.len().min(20)) {
        let mut b = vec![false; chunks.len()];
        for (k, i) in free.iter().enumerate() {
            if mask & (1 << k) != 0 {
                b[*i] = true;
            }
        }
        out.push(b);
    }
    out
}

// ------------------------------------------------------------------------------------------
// Fragmented movies
// ------------------------------------------------------------------------------------------

#[derive(Clone, Debug)]
pub struct RawTraf {
    pub track_frac: u16,
    pub base: u8,
    pub tfdt_v1: bool,
    pub tfdt_time: u64,
    pub tfhd_dur: Option<u32>,
    pub tfhd_size: Option<u32>,
    pub tfhd_flags: Option<u32>,
    pub tfhd_sdi: Option<u32>,
    pub trun_dur: bool,
    pub trun_cts: bool,
    pub trun_flags: bool,
    pub trun_first_flags: Option<u32>,
    pub trun_version: u8,
    pub lead: u8,
    pub samples: Vec<RawSample>,
    pub has_trun: bool,
    pub dup_ok: bool,
}

pub fn raw_traf(max_run: usize) -> impl Strategy<Value = RawTraf> {
    (
        (any::<u16>(), 0u8..3, any::<bool>(), prop_oneof![Just(0u64), 0u64..100000, (1u64 << 32) - 5..(1u64 << 32) + 5, any::<u64>().prop_map(|x| x >> 2)]),
        (prop::option::of(dur_strategy()), prop::option::of(1u32..100), prop::option::of(any::<u32>()), prop::option::of(1u32..3)),
        (any::<bool>(), any::<bool>(), any::<bool>(), prop::option::of(any::<u32>()), 0u8..2, prop_oneof![3 => Just(0u8), 1 => 1u8..9]),
        prop::collection::vec(raw_sample(), 0..=max_run),
        (prop::bool::weighted(0.88), prop::bool::weighted(0.3)),
    )
        .prop_map(|((track_frac, base, tfdt_v1, tfdt_time), (tfhd_dur, tfhd_size, tfhd_flags, tfhd_sdi), (trun_dur, trun_cts, trun_flags, trun_first_flags, trun_version, lead), samples, (has_trun, dup_ok))| RawTraf {
            has_trun,
            dup_ok,
            track_frac,
            base,
            tfdt_v1,
            tfdt_time,
            tfhd_dur,
            tfhd_size,
            tfhd_flags,
            tfhd_sdi,
            trun_dur,
            trun_cts,
            trun_flags,
            trun_first_flags,
            trun_version,
            lead,
            samples,
        })
}

pub fn frag_movie(max_tracks: usize, max_frags: usize, max_run: usize) -> impl Strategy<Value = Movie> {
    let track = (codec_strategy(), timescale_strategy(), lang_strategy(), dur_strategy());
    (
        prop::collection::vec(track, 1..=max_tracks),
        prop::collection::vec((prop::collection::vec(raw_traf(max_run), 1..=max_tracks), any::<bool>()), 1..=max_frags),
        timescale_strategy(),
        prop::option::of((0u8..2, any::<u32>().prop_map(|x| x as u64))),
        prop::option::weighted(0.2, 0u8..2),
        any::<bool>(),
        prop::bool::weighted(0.2),
        any::<u32>(),
    )
        .prop_map(|(tracks, frags, ts, mehd, emsg, same_trex, large_moof, deco)| {
            let n = tracks.len();
            let mut tv: Vec<Track> = tracks
                .into_iter()
                .enumerate()
                .map(|(i, (codec, tts, lang, trex_dur))| {
                    let mut t = assemble_track(i as u32 + 1, codec, tts, lang, &[], &TrackOpts { co64: false, fixed_stsz: false, uniform_size: None, uniform_dur: None, has_ctts: false, has_stss: false, sync_mode: 0 });
                    t.trex_dur = trex_dur;
                    t
                })
                .collect();
            if same_trex {
                let d = tv[0].trex_dur;
                for t in tv.iter_mut() {
                    t.trex_dur = d;
                }
            }
            let mut fv = Vec::new();
            for (fi, (rtrafs, mdat_first)) in frags.into_iter().enumerate() {
                let mut used = vec![false; n];
                let mut trafs = Vec::new();
                for (k, rt) in rtrafs.into_iter().enumerate() {
                    let ti = (rt.track_frac as usize * n) >> 16;
                    // usually one traf per track and moof; sometimes a second one for the same track
                    if used[ti] && !rt.dup_ok {
                        continue;
                    }
                    used[ti] = true;
                    // "neither" base only for the first traf of a moof (ISO and the property agree there)
                    let base = match rt.base {
                        0 => BaseMode::Explicit,
                        1 => BaseMode::DefaultBaseIsMoof,
                        _ => {
                            if k == 0 {
                                BaseMode::Neither
                            } else {
                                BaseMode::DefaultBaseIsMoof
                            }
                        }
                    };
                    let tfdt_time = if rt.tfdt_v1 { rt.tfdt_time } else { rt.tfdt_time & 0xffff_ffff };
                    let samples: Vec<Sample> = if rt.has_trun { rt.samples.iter().map(|r| Sample { size: r.size, dur: r.dur, cts: if rt.trun_cts { r.cts } else { 0 }, sync: r.sync }).collect() } else { vec![] };
                    trafs.push(Traf {
                        track: ti,
                        base,
                        tfdt: Some((rt.tfdt_v1 as u8, tfdt_time)),
                        tfhd_dur: rt.tfhd_dur,
                        tfhd_size: rt.tfhd_size,
                        tfhd_flags: rt.tfhd_flags,
                        tfhd_sdi: rt.tfhd_sdi,
                        trun_dur: rt.trun_dur,
                        trun_cts: rt.trun_cts,
                        trun_flags: rt.trun_flags,
                        trun_first_flags: rt.trun_first_flags,
                        trun_version: rt.trun_version,
                        lead: rt.lead,
                        samples,
                        has_trun: rt.has_trun,
                        trun_size: true,
                    });
                }
                fv.push(Fragment { seq: fi as u32 + 1, mdat_first, trafs });
            }
            let mut m = movie_shell(tv);
            m.frags = fv;
            m.timescale = ts;
            m.mehd = mehd;
            m.emsg = emsg;
            m.large_moof = large_moof;
            // a third of the movies carry a non-zero media duration in the mdhd of fragmented tracks
            m.frag_mdhd_dur = match m.mehd { Some((_, d)) if d % 3 == 0 => 1 + (d % 100_000) as u32, _ => 0 };
            decorate(&mut m, deco, false);
            m
        })
}

// ------------------------------------------------------------------------------------------
// Metadata movies
// ------------------------------------------------------------------------------------------

pub fn utf8_text() -> impl Strategy<Value = Vec<u8>> {
    prop_oneof![
        2 => Just(Vec::new()),
        4 => "[ -~]{1,24}".prop_map(|s| s.into_bytes()),
        2 => "\\PC{1,16}".prop_map(|s| s.into_bytes()),
        1 => "[a-z ]{200,400}".prop_map(|s| s.into_bytes()),
        1 => prop::collection::vec(b'a'..=b'z', 65536..65600),
        // text a lenient reader might be tempted to tidy up: byte-order mark, NUL, surrounding blanks
        1 => ("[ -~]{0,12}", 0usize..5).prop_map(|(s, k)| {
            let (pre, post): (&[u8], &[u8]) = [(&[0xEF, 0xBB, 0xBF][..], &[][..]), (&[0xEF, 0xBB, 0xBF, 0xEF, 0xBB, 0xBF][..], &[][..]), (&[][..], &[0][..]), (b"  ", b" \n"), (&[][..], &[0xEF, 0xBB, 0xBF][..])][k];
            [pre, s.as_bytes(), post].concat()
        }),
    ]
}

pub fn unknown_atoms() -> impl Strategy<Value = Vec<(Cc, Vec<u8>)>> {
    prop::collection::vec((prop_oneof![Just(cc("free")), Just(cc("mean")), Just(cc("name")), Just(cc("xyzw"))], prop::collection::vec(any::<u8>(), 0..12)), 0..2)
}

#[derive(Clone, Debug)]
pub enum YearEnc {
    Text(u32),
    TextPadded(u32),
    Binary(u32),
    /// binary payload whose length is not 4: not "its 4-byte binary form" -> no year
    BinaryOdd(Vec<u8>),
    /// text that is not a decimal number -> no year
    TextJunk(String),
}

pub fn meta_strategy() -> impl Strategy<Value = (Meta, MetaExpect)> {
    let title = prop::option::of(utf8_text());
    let summary = prop::option::of(utf8_text());
    let year = prop::option::of(prop_oneof![
        any::<u32>().prop_map(YearEnc::Text),
        (0u32..3000).prop_map(YearEnc::Text),
        (0u32..99999).prop_map(YearEnc::TextPadded),
        any::<u32>().prop_map(YearEnc::Binary),
        prop_oneof![Just(vec![]), Just(vec![7]), Just(vec![0, 7, 216]), Just(vec![0, 0, 7, 216, 1]), Just(vec![0, 0, 7, 216, 0, 0, 0, 0]), prop::collection::vec(any::<u8>(), 5..12)].prop_map(YearEnc::BinaryOdd),
        prop_oneof![Just(String::new()), Just("year".to_string()), Just("MMVIII".to_string()), "[a-z]{1,6}"].prop_map(YearEnc::TextJunk),
    ]);
    let poster = prop::option::of(prop_oneof![Just(Vec::new()), prop::collection::vec(any::<u8>(), 1..40), prop::collection::vec(any::<u8>(), 4000..4100)]);
    let unknown_items = prop::collection::vec((prop_oneof![Just(cc("\u{a9}too")), Just([0xa9, b'a', b'l', b'b']), Just(cc("trkn")), Just(cc("----")), Just(cc("aART")), itunes_atom_name()], prop::collection::vec(any::<u8>(), 0..20), 0u32..30), 0..5);
    (
        (title, summary, year, poster),
        unknown_items,
        prop_oneof![4 => Just(cc("mdir")), 1 => Just(cc("mdta")), 1 => Just(cc("ID32"))],
        prop::bool::weighted(0.25),
        prop::bool::weighted(0.2),
        prop::bool::weighted(0.85),
        (unknown_atoms(), unknown_atoms(), unknown_atoms()),
        any::<u64>(),
        prop_oneof![2 => Just(0u64), 1 => 1u64..u64::MAX],
    )
        .prop_map(|((title, summary, year, poster), unknown_items, handler, quicktime, hdlr_last, has_ilst, (pre, post, udta_extra), order_seed, large_seed)| {
            let mut items: Vec<MetaItem> = Vec::new();
            let mut exp = MetaExpect::default();
            let mdir = handler == cc("mdir");
            if let Some(t) = &title {
                items.push(MetaItem { typ: [0xa9, b'n', b'a', b'm'], type_code: 1, payload: t.clone(), pre: pre.clone(), post: vec![], locale: 0 });
            }
            if let Some(s) = &summary {
                items.push(MetaItem { typ: cc("desc"), type_code: 1, payload: s.clone(), pre: vec![], post: post.clone(), locale: 0 });
            }
            if let Some(y) = &year {
                let (code, payload, val) = match y {
                    YearEnc::Text(v) => (1u32, v.to_string().into_bytes(), Some(*v)),
                    YearEnc::TextPadded(v) => (1u32, format!("{:04}", v).into_bytes(), Some(*v)),
                    YearEnc::Binary(v) => (0u32, v.to_be_bytes().to_vec(), Some(*v)),
                    YearEnc::BinaryOdd(b) => (0u32, b.clone(), None),
                    YearEnc::TextJunk(s) => (1u32, s.clone().into_bytes(), None),
                };
                items.push(MetaItem { typ: [0xa9, b'd', b'a', b'y'], type_code: code, payload, pre: vec![], post: vec![], locale: 0 });
                exp.year = val;
            }
            if let Some(p) = &poster {
                items.push(MetaItem { typ: cc("covr"), type_code: 13, payload: p.clone(), pre: vec![], post: vec![], locale: 0 });
            }
            exp.title = title;
            exp.summary = summary;
            exp.poster = poster;
            exp.known_items = items.len();
            exp.unknown_items = unknown_items.len();
            for (t, p, code) in unknown_items {
                let code = match code {
                    0 | 1 | 13 | 21 => code,
                    _ => 1,
                };
                items.push(MetaItem { typ: t, type_code: code, payload: p, pre: vec![], post: vec![], locale: 0 });
            }
            // locale indicators: mostly 0, sometimes a country/language pair, per item
            if order_seed % 3 == 0 {
                let mut y = order_seed;
                for it in items.iter_mut() {
                    y = crate::engine::splitmix(y);
                    it.locale = match y % 4 {
                        0 => 0,
                        1 => 0x0000_0409,
                        2 => (y >> 8) as u32 & 0xffff,
                        _ => (y >> 8) as u32,
                    };
                }
            }
            // deterministic shuffle of item order
            let mut x = order_seed;
            if order_seed != 0 {
                for i in (1..items.len()).rev() {
                    x = crate::engine::splitmix(x);
                    items.swap(i, (x % (i as u64 + 1)) as usize);
                }
            }
            if !mdir || !has_ilst {
                exp.title = None;
                exp.summary = None;
                exp.year = None;
                exp.poster = None;
                exp.absent_reason = Some(if !mdir { "other handler" } else { "no ilst" });
            }
            (Meta { handler, quicktime, items: if has_ilst { Some(items) } else { None }, hdlr_last, udta_extra, large_seed, hdlr_name: String::new() }, exp)
        })
}

#[derive(Clone, Debug, Default, serde::Serialize)]
pub struct MetaExpect {
    pub title: Option<Vec<u8>>,
    pub summary: Option<Vec<u8>>,
    pub year: Option<u32>,
    pub poster: Option<Vec<u8>>,
    pub known_items: usize,
    pub unknown_items: usize,
    pub absent_reason: Option<&'static str>,
}
