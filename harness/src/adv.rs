//! Adversarial byte inputs (DESIGN 3.4): field-directed substitution (single, pairwise), box-tree
//! surgery, byte havoc, prefixes — over files produced by the reference encoder and the canned files.

use crate::engine::{fnv64, Ctx};
use crate::gen;
use crate::refmp4::movie::*;
use crate::refmp4::parse::{self, Field, FieldKind, PBox};
use crate::refmp4::cc;
use proptest::prelude::*;
use proptest::test_runner::{Config, RngAlgorithm, TestRng, TestRunner};
use serde::ser::SerializeStruct;
use serde::{Serialize, Serializer};

#[derive(Clone, Debug)]
pub struct AdvCase {
    pub bytes: Vec<u8>,
    pub desc: String,
    /// fields whose value was replaced (kinds), for the non-trivial rules
    pub touched: Vec<FieldKind>,
    pub base: usize,
    /// big-tables stage: the same file with the table in ascending order (reference for the
    /// relative CPU-time check of C07)
    pub baseline: Option<std::sync::Arc<Vec<u8>>>,
}

impl Serialize for AdvCase {
    fn serialize<S: Serializer>(&self, s: S) -> Result<S::Ok, S::Error> {
        let mut st = s.serialize_struct("AdvCase", 4)?;
        st.serialize_field("desc", &self.desc)?;
        st.serialize_field("len", &self.bytes.len())?;
        st.serialize_field("hex", &crate::engine::hex(&self.bytes))?;
        st.serialize_field("baseline_hex", &self.baseline.as_ref().map(|b| crate::engine::hex(b)))?;
        st.end()
    }
}

pub fn case_from_json(v: &serde_json::Value) -> Option<AdvCase> {
    let hex = v.get("hex")?.as_str()?;
    let baseline = v.get("baseline_hex").and_then(|h| h.as_str()).map(|h| std::sync::Arc::new(crate::engine::unhex(h)));
    Some(AdvCase { bytes: crate::engine::unhex(hex), desc: v.get("desc").and_then(|d| d.as_str()).unwrap_or("").to_string(), touched: vec![], base: 0, baseline })
}

pub struct Base {
    pub name: String,
    pub bytes: Vec<u8>,
    pub fields: Vec<Field>,
    pub boxes: Vec<PBox>,
    pub canned: bool,
}

pub fn seeds_dir() -> std::path::PathBuf {
    crate::engine::verif_root().join("seeds")
}

pub fn canned(name: &str) -> Vec<u8> {
    std::fs::read(seeds_dir().join(name)).unwrap_or_else(|e| panic!("seed file {}: {}", name, e))
}

fn mk_base(name: String, bytes: Vec<u8>, canned: bool) -> Base {
    let boxes = parse::walk_lenient(&bytes);
    let mut fields = Vec::new();
    parse::field_map(&bytes, &boxes, &mut fields);
    Base { name, bytes, fields, boxes, canned }
}

/// hand-specified movie touching every box kind the library parses
pub fn kitchen_sink(variant: u32) -> Movie {
    let raw = |size: u32, dur: u32, cts: i32, sync: bool, cb: bool| gen::RawSample { size, dur, cts, sync, chunk_break: cb, stsc_break: false, stts_break: false, ctts_break: false };
    let opts = |co64: bool, ctts: bool, stss: bool| gen::TrackOpts { co64, fixed_stsz: false, uniform_size: None, uniform_dur: None, has_ctts: ctts, has_stss: stss, sync_mode: 0 };
    let samples = vec![raw(5, 10, 0, true, false), raw(6, 10, 3, false, true), raw(7, 20, -2, false, false), raw(5, 20, 0, true, true), raw(9, 5, 1, false, true)];
    let mut tracks = vec![
        gen::assemble_track(1, Codec::Avc { width: 320, height: 240, sps: vec![0x67, 0x42, 0xc0, 0x1e, 0xd9], pps: vec![0x68, 0xce, 0x3c] }, 90000, *b"eng", &samples, &opts(false, true, true)),
        gen::assemble_track(2, Codec::Aac { object_type: 2, freq_index: 4, chan: 2, bitrate: 128000 }, 44100, *b"und", &samples[..3], &opts(true, false, false)),
    ];
    match variant % 3 {
        0 => {
            tracks.push(gen::assemble_track(3, Codec::Hevc { width: 64, height: 48 }, 1000, *b"fra", &samples[..2], &opts(false, false, true)));
            tracks.push(gen::assemble_track(4, Codec::Ttxt, 1000, *b"deu", &samples[..1], &opts(false, false, false)));
        }
        1 => {
            tracks.push(gen::assemble_track(3, Codec::Vp9 { width: 64, height: 48 }, 1000, *b"jpn", &samples[..4], &opts(true, true, false)));
        }
        _ => {}
    }
    tracks[0].elst = Some(vec![(100, 0), (50, 20)]);
    let mut m = gen::movie_shell(tracks);
    m.interleave = variant as u64;
    m.gap = (variant % 2) as u8;
    m.mdat_first = variant % 4 == 3;
    m.meta = Some(Meta {
        handler: if variant % 5 == 4 { cc("mdta") } else { cc("mdir") },
        quicktime: variant % 2 == 1,
        items: Some(vec![
            MetaItem { typ: [0xa9, b'n', b'a', b'm'], type_code: 1, payload: b"Title".to_vec(), pre: vec![], post: vec![], locale: 0 },
            MetaItem { typ: [0xa9, b'd', b'a', b'y'], type_code: 1, payload: b"2021".to_vec(), pre: vec![], post: vec![], locale: 0 },
            MetaItem { typ: cc("covr"), type_code: 13, payload: vec![1, 2, 3, 4, 5], pre: vec![], post: vec![], locale: 0 },
            MetaItem { typ: cc("desc"), type_code: 1, payload: b"Sum".to_vec(), pre: vec![(cc("mean"), vec![0; 4])], post: vec![], locale: 0 },
        ]),
        hdlr_last: false,
        udta_extra: vec![], large_seed: 0, hdlr_name: String::new(),
    });
    m
}

pub fn kitchen_sink_frag(variant: u32) -> Movie {
    let mut m = kitchen_sink(variant);
    for t in m.tracks.iter_mut() {
        t.samples.clear();
        t.chunks.clear();
        t.stsc_breaks.clear();
        t.stts_breaks.clear();
        t.ctts_breaks.clear();
        t.has_ctts = false;
        t.has_stss = false;
        t.trex_dur = 100;
    }
    let s = |size: u32, dur: u32, cts: i32| Sample { size, dur, cts, sync: true };
    let traf = |track: usize, base: BaseMode, trun_dur: bool, v1: bool, samples: Vec<Sample>| Traf {
        track,
        base,
        tfdt: Some((v1 as u8, if v1 { 1 << 33 } else { 1000 })),
        tfhd_dur: if trun_dur { None } else { Some(33) },
        tfhd_size: Some(4),
        tfhd_flags: Some(0x10000),
        tfhd_sdi: Some(1),
        trun_dur,
        trun_cts: true,
        trun_flags: variant % 2 == 0,
        trun_first_flags: Some(0x2000000),
        trun_version: 1,
        lead: (variant % 3) as u8,
        samples,
        has_trun: true,
        trun_size: true,
    };
    m.frags = vec![
        Fragment { seq: 1, mdat_first: false, trafs: vec![traf(0, BaseMode::DefaultBaseIsMoof, true, false, vec![s(4, 10, 0), s(5, 11, -3)]), traf(1, BaseMode::Explicit, false, true, vec![s(3, 0, 0)])] },
        Fragment { seq: 2, mdat_first: variant % 2 == 1, trafs: vec![traf(0, BaseMode::Neither, false, true, vec![s(6, 9, 1), s(2, 9, 2), s(1, 9, 3)])] },
    ];
    m.mehd = Some(((variant % 2) as u8, 12345));
    m.emsg = Some((variant % 2) as u8);
    if variant >= 3 {
        // robustness shapes: a second traf of the same track in one moof, a traf without trun, and
        // runs with every other combination of per-sample fields (no sizes: default size applies)
        let mut extra = traf(0, BaseMode::DefaultBaseIsMoof, variant % 2 == 0, false, vec![s(3, 4, 0), s(3, 4, 1)]);
        extra.trun_size = variant % 4 == 3;
        extra.trun_cts = variant % 3 != 0;
        extra.trun_flags = variant % 5 == 0;
        extra.trun_first_flags = None;
        extra.tfhd_size = Some(3);
        m.frags[0].trafs.push(extra);
        let mut empty = traf(1, BaseMode::DefaultBaseIsMoof, false, false, vec![]);
        empty.has_trun = false;
        m.frags[1].trafs.push(empty);
        // a run without any per-sample field (sizes and durations from the tfhd defaults)
        let mut bare = traf(1, BaseMode::DefaultBaseIsMoof, false, false, vec![s(4, 33, 0), s(4, 33, 0)]);
        bare.trun_size = false;
        bare.trun_cts = false;
        bare.trun_flags = false;
        bare.trun_first_flags = None;
        bare.tfhd_size = Some(4);
        m.frags.push(Fragment { seq: 9, mdat_first: false, trafs: vec![bare] });
        let mut cts_only = traf(0, BaseMode::DefaultBaseIsMoof, false, true, vec![s(2, 1, 5), s(2, 1, 6), s(2, 1, 7)]);
        cts_only.trun_size = false;
        cts_only.trun_cts = true;
        cts_only.trun_flags = false;
        cts_only.trun_first_flags = None;
        cts_only.tfhd_size = Some(2);
        m.frags.push(Fragment { seq: 3, mdat_first: false, trafs: vec![cts_only] });
    }
    m
}

pub fn bases(ctx: &Ctx, n_generated: usize) -> Vec<Base> {
    let mut out = Vec::new();
    for v in 0..4 {
        out.push(mk_base(format!("sink{}", v), build(&kitchen_sink(v)).bytes, false));
    }
    for v in 0..2 {
        out.push(mk_base(format!("sinkfrag{}", v), build(&kitchen_sink_frag(v)).bytes, false));
    }
    for v in 3..7 {
        out.push(mk_base(format!("sinkfrag{}", v), build(&kitchen_sink_frag(v)).bytes, false));
    }
    // metadata items in unusual-but-legal encodings (empty / short / long binary year, empty text,
    // image type on a text item, ...)
    for v in 0..3u32 {
        let mut m = kitchen_sink(2);
        let day: (u32, Vec<u8>) = match v {
            0 => (0, vec![]),
            1 => (0, vec![7]),
            _ => (0, vec![0, 0, 7, 216, 1, 2]),
        };
        m.meta = Some(Meta {
            handler: cc("mdir"),
            quicktime: v == 1,
            items: Some(vec![
                MetaItem { typ: [0xa9, b'n', b'a', b'm'], type_code: if v == 2 { 13 } else { 1 }, payload: vec![], pre: vec![], post: vec![], locale: 0 },
                MetaItem { typ: [0xa9, b'd', b'a', b'y'], type_code: day.0, payload: day.1, pre: vec![], post: vec![], locale: 0 },
                MetaItem { typ: cc("covr"), type_code: 0, payload: vec![], pre: vec![], post: vec![], locale: 0 },
                MetaItem { typ: cc("desc"), type_code: 21, payload: vec![0xff, 0xfe], pre: vec![], post: vec![], locale: 0 },
            ]),
            hdlr_last: v == 0,
            udta_extra: vec![], large_seed: 0, hdlr_name: String::new(),
        });
        out.push(mk_base(format!("sinkmeta{}", v), build(&m).bytes, false));
    }
    // media segment only
    {
        let b = build(&kitchen_sink_frag(2));
        out.push(mk_base("segment".into(), b.segment, false));
    }
    // generated (seed dependent)
    let mut h = crate::engine::Fnv::new();
    h.write(&ctx.seed.to_le_bytes());
    h.write(b"adv-bases");
    let mut seed = [0u8; 32];
    let mut x = h.finish();
    for c in seed.chunks_mut(8) {
        x = crate::engine::splitmix(x);
        c.copy_from_slice(&x.to_le_bytes());
    }
    let mut runner = TestRunner::new_with_rng(Config::default(), TestRng::from_seed(RngAlgorithm::ChaCha, &seed));
    for i in 0..n_generated {
        let m = match i % 3 {
            0 => gen::draw(&gen::table_movie(3, 12), &mut runner),
            1 => gen::draw(&gen::frag_movie(3, 3, 4), &mut runner),
            _ => {
                let mut m = gen::draw(&gen::table_movie(2, 6), &mut runner);
                m.meta = Some(gen::draw(&gen::meta_strategy(), &mut runner).0);
                // keep it small
                if let Some(items) = m.meta.as_mut().and_then(|x| x.items.as_mut()) {
                    for it in items.iter_mut() {
                        it.payload.truncate(64);
                    }
                }
                m
            }
        };
        let b = build(&m);
        if b.bytes.len() <= 6000 {
            out.push(mk_base(format!("gen{}", i), b.bytes, false));
        }
    }
    for name in ["minimal.mp4", "minimal_init.mp4", "minimal_fragment.m4s", "extended_audio_object_type.mp4"] {
        out.push(mk_base(name.to_string(), canned(name), true));
    }
    out
}

pub fn driver_context() -> crate::driver::Context {
    let f = build(&kitchen_sink_frag(1));
    crate::driver::Context { inits: vec![canned("minimal_init.mp4"), f.bytes[..f.init_len].to_vec()], segments: vec![canned("minimal_fragment.m4s"), f.segment.clone()], timing: true }
}

pub fn boundary_values(f: &Field, bytes: &[u8]) -> Vec<u64> {
    let cur = read_field(bytes, f);
    let mut v: Vec<u64> = vec![0, 1, 2, 7, 8, 9, 15, 16, 0x7f, 0x80, 0xff, 0x7fff, 0x8000, 0xffff, 0x7fff_ffff, 0x8000_0000, 0xffff_ffff, cur.wrapping_add(1), cur.wrapping_sub(1), cur.wrapping_add(8), cur.wrapping_sub(8), bytes.len() as u64, (f.box_end - f.off) as u64, (bytes.len() - f.off) as u64, 0x00ff_ffff, 0x0100_0000];
    if f.width == 8 {
        v.extend([1u64 << 32, (1u64 << 32) + 1, 1u64 << 63, u64::MAX, u64::MAX - 7, (1u64 << 63) - 1]);
    }
    let mask = if f.width >= 8 { u64::MAX } else { (1u64 << (8 * f.width)) - 1 };
    let mut out: Vec<u64> = Vec::new();
    for x in v {
        let x = x & mask;
        if x != cur && !out.contains(&x) {
            out.push(x);
        }
    }
    out
}

pub fn small_values(f: &Field, bytes: &[u8]) -> Vec<u64> {
    let cur = read_field(bytes, f);
    let mask = if f.width >= 8 { u64::MAX } else { (1u64 << (8 * f.width)) - 1 };
    let mut out = Vec::new();
    for x in [0u64, 1, 8, 0xff, 0x7fff_ffff, u64::MAX, cur.wrapping_add(1), (bytes.len() - f.off) as u64] {
        let x = x & mask;
        if x != cur && !out.contains(&x) {
            out.push(x);
        }
    }
    out
}

pub fn read_field(bytes: &[u8], f: &Field) -> u64 {
    let mut x = 0u64;
    for i in 0..f.width {
        x = (x << 8) | bytes[f.off + i] as u64;
    }
    x
}

pub fn write_field(bytes: &mut [u8], f: &Field, v: u64) {
    for i in 0..f.width {
        bytes[f.off + i] = (v >> (8 * (f.width - 1 - i))) as u8;
    }
}

fn fname(f: &Field) -> String {
    format!("{}@{}+{}:{:?}", String::from_utf8_lossy(&f.boxtype), f.off, f.width, f.kind)
}

/// Enumerated stages. `weight(kind)` lets a property focus on some field kinds (0 = skip).
pub fn run_enumerated(ctx: &mut Ctx, bases: &[Base], weight: &dyn Fn(FieldKind) -> u32, chain_r: usize, mut each: impl FnMut(&mut Ctx, &AdvCase)) {
    // ---- single substitution: exhaustive ----
    ctx.stage("single");
    let mut idx = 0u64;
    for (bi, b) in bases.iter().enumerate() {
        for f in &b.fields {
            if weight(f.kind) == 0 {
                continue;
            }
            for v in boundary_values(f, &b.bytes) {
                let my = idx;
                idx += 1;
                if !ctx.enter(my) {
                    continue;
                }
                let mut bytes = b.bytes.clone();
                write_field(&mut bytes, f, v);
                each(ctx, &AdvCase { bytes, desc: format!("{}: {} := {:#x}", b.name, fname(f), v), touched: vec![f.kind], base: bi, baseline: None });
            }
        }
    }
    ctx.extra.insert("single_substitutions".into(), serde_json::json!(idx));
    // ---- word sweep on canned files ----
    ctx.stage("words");
    let mut idx = 0u64;
    for (bi, b) in bases.iter().enumerate() {
        if !b.canned {
            continue;
        }
        let mut words = Vec::new();
        parse::word_fields(&b.bytes, &b.boxes, false, &mut words);
        for f in &words {
            for v in small_values(f, &b.bytes) {
                let my = idx;
                idx += 1;
                if !ctx.enter(my) {
                    continue;
                }
                let mut bytes = b.bytes.clone();
                write_field(&mut bytes, f, v);
                each(ctx, &AdvCase { bytes, desc: format!("{}: word {} := {:#x}", b.name, fname(f), v), touched: vec![FieldKind::Word], base: bi, baseline: None });
            }
        }
    }
    ctx.extra.insert("word_substitutions".into(), serde_json::json!(idx));
    // ---- pairwise inside a box and with the parent's size field ----
    ctx.stage("pairwise");
    let stride = ctx.pick(4u64, 1u64);
    let mut idx = 0u64;
    for (bi, b) in bases.iter().enumerate() {
        // group fields by box (same box_end & depth & boxtype)
        let mut groups: Vec<Vec<&Field>> = Vec::new();
        for f in &b.fields {
            if f.kind == FieldKind::Type || weight(f.kind) == 0 {
                continue;
            }
            match groups.last_mut() {
                Some(g) if g[0].box_end == f.box_end && g[0].depth == f.depth && g[0].boxtype == f.boxtype => g.push(f),
                _ => groups.push(vec![f]),
            }
        }
        for gi in 0..groups.len() {
            // the parent's size field = the size field of the closest previous group with smaller depth
            let mut fields: Vec<&Field> = groups[gi].clone();
            if let Some(pg) = groups[..gi].iter().rev().find(|g| g[0].depth < groups[gi][0].depth && g[0].box_end >= groups[gi][0].box_end) {
                fields.push(pg[0]);
            }
            for i in 0..fields.len() {
                for j in i + 1..fields.len() {
                    let (fa, fb) = (fields[i], fields[j]);
                    if fa.off + fa.width > fb.off && fb.off + fb.width > fa.off {
                        continue; // overlapping descriptors of the same bytes
                    }
                    for va in small_values(fa, &b.bytes) {
                        for vb in small_values(fb, &b.bytes) {
                            let my = idx;
                            idx += 1;
                            if my % stride != 0 {
                                continue;
                            }
                            if !ctx.enter(my / stride) {
                                continue;
                            }
                            let mut bytes = b.bytes.clone();
                            write_field(&mut bytes, fa, va);
                            write_field(&mut bytes, fb, vb);
                            each(ctx, &AdvCase { bytes, desc: format!("{}: {} := {:#x}, {} := {:#x}", b.name, fname(fa), va, fname(fb), vb), touched: vec![fa.kind, fb.kind], base: bi, baseline: None });
                        }
                    }
                }
            }
        }
    }
    ctx.extra.insert("pairwise_space".into(), serde_json::json!(idx));
    ctx.extra.insert("pairwise_stride".into(), serde_json::json!(stride));
    // ---- pairs across boxes: offsets / lengths / counts / times of different boxes together ----
    ctx.stage("cross-box");
    let stride = ctx.pick(16u64, 2u64);
    let mut idx = 0u64;
    for (bi, b) in bases.iter().enumerate() {
        let fs: Vec<&Field> = b.fields.iter().filter(|f| matches!(f.kind, FieldKind::Offset | FieldKind::Length | FieldKind::Count | FieldKind::Time) && weight(f.kind) != 0).collect();
        for i in 0..fs.len() {
            for j in i + 1..fs.len() {
                let (fa, fb) = (fs[i], fs[j]);
                if fa.box_end == fb.box_end || (fa.off + fa.width > fb.off && fb.off + fb.width > fa.off) {
                    continue; // same box: covered by the pairwise stage
                }
                for va in [0u64, u64::MAX, 0x7fff_ffff, b.bytes.len() as u64] {
                    for vb in [0u64, u64::MAX, 0x7fff_ffff, b.bytes.len() as u64 + 1] {
                        let my = idx;
                        idx += 1;
                        if my % stride != 0 || !ctx.enter(my / stride) {
                            continue;
                        }
                        let mask = |f: &Field, v: u64| if f.width >= 8 { v } else { v & ((1u64 << (8 * f.width)) - 1) };
                        let mut bytes = b.bytes.clone();
                        write_field(&mut bytes, fa, mask(fa, va));
                        write_field(&mut bytes, fb, mask(fb, vb));
                        each(ctx, &AdvCase { bytes, desc: format!("{}: {} := {:#x}, {} := {:#x}", b.name, fname(fa), mask(fa, va), fname(fb), mask(fb, vb)), touched: vec![fa.kind, fb.kind], base: bi, baseline: None });
                    }
                }
            }
        }
    }
    ctx.extra.insert("cross_box_space".into(), serde_json::json!(idx));
    // ---- consistent inflation: a count claims far more entries than the file holds and the sizes
    // of its box and of the k nearest ancestors are raised to match, so that every check below
    // level k passes; the first honest ancestor is the only one that can catch the lie ----
    ctx.stage("inflate-chain");
    let mut idx = 0u64;
    for (bi, b) in bases.iter().enumerate() {
        for f in b.fields.iter().filter(|f| matches!(f.kind, FieldKind::Count | FieldKind::Length) && weight(f.kind) != 0) {
            // chain of boxes containing the field, outermost first
            let mut chain: Vec<&PBox> = Vec::new();
            let mut level: &[PBox] = &b.boxes;
            loop {
                match level.iter().find(|x| x.start <= f.off && f.off < x.end()) {
                    Some(x) => {
                        chain.push(x);
                        level = &x.children;
                    }
                    None => break,
                }
            }
            if chain.is_empty() {
                continue;
            }
            for v in [1u64 << 16, 1 << 22, 1 << 27] {
                let v = if f.width >= 8 { v } else { v & ((1u64 << (8 * f.width)) - 1) };
                if v == 0 {
                    continue;
                }
                for k in 1..=chain.len().min(5) {
                    let my = idx;
                    idx += 1;
                    if !ctx.enter(my) {
                        continue;
                    }
                    let mut bytes = b.bytes.clone();
                    write_field(&mut bytes, f, v);
                    let extra = v * 16;
                    for x in chain.iter().rev().take(k) {
                        let claimed = x.size as u64 + extra;
                        if x.header >= 16 {
                            bytes[x.start + 8..x.start + 16].copy_from_slice(&claimed.to_be_bytes());
                        } else {
                            bytes[x.start..x.start + 4].copy_from_slice(&(claimed.min(u32::MAX as u64) as u32).to_be_bytes());
                        }
                    }
                    each(ctx, &AdvCase { bytes, desc: format!("{}: {} := {:#x} with the sizes of the {} enclosing box(es) raised by {}", b.name, fname(f), v, k, extra), touched: vec![f.kind, FieldKind::Size], base: bi, baseline: None });
                }
            }
        }
    }
    ctx.extra.insert("inflate_chain_cases".into(), serde_json::json!(idx));
    // ---- box-tree surgery ----
    ctx.stage("surgery");
    let mut idx = 0u64;
    for (bi, b) in bases.iter().enumerate() {
        let mut flat: Vec<(Vec<usize>, &PBox)> = Vec::new();
        fn flatten<'a>(boxes: &'a [PBox], path: &mut Vec<usize>, out: &mut Vec<(Vec<usize>, &'a PBox)>, top: &'a [PBox]) {
            let _ = top;
            for (i, pb) in boxes.iter().enumerate() {
                path.push(i);
                out.push((path.clone(), pb));
                flatten(&pb.children, path, out, top);
                path.pop();
            }
        }
        flatten(&b.boxes, &mut Vec::new(), &mut flat, &b.boxes);
        for (path, pb) in &flat {
            if pb.typ == cc("mdat") && pb.size > 2000 {
                continue;
            }
            // ancestors (for consistent size fix-ups)
            let mut anc: Vec<&PBox> = Vec::new();
            let mut level: &[PBox] = &b.boxes;
            for (d, i) in path.iter().enumerate() {
                if d + 1 < path.len() {
                    anc.push(&level[*i]);
                    level = &level[*i].children;
                }
            }
            let ops: [&str; 9] = ["delete", "delete-raw", "duplicate", "duplicate-raw", "truncate-half", "truncate-8", "zero-payload", "nest-in-self", "swap-next"];
            for op in ops {
                let my = idx;
                idx += 1;
                if !ctx.enter(my) {
                    continue;
                }
                let mut bytes = b.bytes.clone();
                let (s, e) = (pb.start, pb.end());
                let fix = |bytes: &mut Vec<u8>, delta: i64| {
                    for a in &anc {
                        if a.header == 8 {
                            let cur = u32::from_be_bytes(bytes[a.start..a.start + 4].try_into().unwrap()) as i64;
                            let nv = (cur + delta).max(0) as u32;
                            bytes[a.start..a.start + 4].copy_from_slice(&nv.to_be_bytes());
                        }
                    }
                };
                match op {
                    "delete" => {
                        bytes.drain(s..e);
                        fix(&mut bytes, -((e - s) as i64));
                    }
                    "delete-raw" => {
                        bytes.drain(s..e);
                    }
                    "duplicate" => {
                        let copy = bytes[s..e].to_vec();
                        bytes.splice(e..e, copy);
                        fix(&mut bytes, (e - s) as i64);
                    }
                    "duplicate-raw" => {
                        let copy = bytes[s..e].to_vec();
                        bytes.splice(e..e, copy);
                    }
                    "truncate-half" => {
                        let keep = (pb.size / 2).max(8.min(pb.size));
                        bytes.drain(s + keep..e);
                        if pb.header == 8 {
                            bytes[s..s + 4].copy_from_slice(&(keep as u32).to_be_bytes());
                        }
                        fix(&mut bytes, -((pb.size - keep) as i64));
                    }
                    "truncate-8" => {
                        let keep = 8.min(pb.size);
                        bytes.drain(s + keep..e);
                        if pb.header == 8 {
                            bytes[s..s + 4].copy_from_slice(&(keep as u32).to_be_bytes());
                        }
                        fix(&mut bytes, -((pb.size - keep) as i64));
                    }
                    "zero-payload" => {
                        for x in bytes[s + pb.header..e].iter_mut() {
                            *x = 0;
                        }
                    }
                    "nest-in-self" => {
                        // replace the payload tail by a copy of the box itself (as far as it fits)
                        let copy = bytes[s..e].to_vec();
                        let room = pb.size - pb.header - pb.prefix.min(pb.size - pb.header);
                        let at = s + pb.header + pb.prefix.min(pb.size - pb.header);
                        let n = room.min(copy.len());
                        bytes[at..at + n].copy_from_slice(&copy[..n]);
                    }
                    _ => {
                        // swap with the next sibling
                        let sibs: &[PBox] = if path.len() == 1 { &b.boxes } else { &anc.last().unwrap().children };
                        let i = *path.last().unwrap();
                        if i + 1 < sibs.len() {
                            let nx = &sibs[i + 1];
                            let a = bytes[s..e].to_vec();
                            let c = bytes[nx.start..nx.end()].to_vec();
                            let mut joined = c;
                            joined.extend(a);
                            bytes.splice(s..nx.end(), joined);
                        } else {
                            continue;
                        }
                    }
                }
                each(ctx, &AdvCase { bytes, desc: format!("{}: {} box {} at {}", b.name, op, pb.name(), pb.start), touched: vec![FieldKind::Size], base: bi, baseline: None });
            }
        }
    }
    ctx.extra.insert("surgery_cases".into(), serde_json::json!(idx));
    // ---- deep nesting: a chain of D boxes of one type nested in one another, appended as the last
    // child of every box that has children (sizes of the host and its ancestors fixed up). Any
    // decoder that follows such a chain by recursion needs stack in proportion to the input.
    ctx.stage("deep-nest");
    let depth = ctx.pick(60_000usize, 200_000usize);
    // quick tier: 13 type names x the containers of one generated file; thorough: 30 x two files
    const NEST: [&str; 30] = ["wave", "sinf", "schi", "udta", "meta", "ilst", "moov", "trak", "stbl", "moof", "traf", "free", "uuid", "rinf", "tref", "mdia", "minf", "dinf", "edts", "mvex", "skip", "stsd", "mp4a", "avc1", "hev1", "esds", "gmhd", "clip", "cmov", "dref"];
    let (n_names, n_bases) = ctx.pick((13usize, 1usize), (30usize, 2usize));
    let mut idx = 0u64;
    for (bi, b) in bases.iter().enumerate().filter(|(_, b)| !b.canned).take(n_bases) {
        let mut hosts: Vec<(Vec<&PBox>, &PBox)> = Vec::new();
        fn walk<'a>(boxes: &'a [PBox], anc: &mut Vec<&'a PBox>, out: &mut Vec<(Vec<&'a PBox>, &'a PBox)>) {
            for pb in boxes {
                if !pb.children.is_empty() && pb.header == 8 {
                    out.push((anc.clone(), pb));
                }
                anc.push(pb);
                walk(&pb.children, anc, out);
                anc.pop();
            }
        }
        walk(&b.boxes, &mut Vec::new(), &mut hosts);
        for (anc, host) in &hosts {
            for (name, first) in NEST.iter().copied().take(n_names).chain(std::iter::once("self")).flat_map(|n| [(n, false), (n, true)]) {
                let my = idx;
                idx += 1;
                if !ctx.enter(my) {
                    continue;
                }
                let typ = if name == "self" { host.typ } else { cc(name) };
                let mut chain = Vec::with_capacity(8 * depth);
                for i in 0..depth {
                    chain.extend_from_slice(&((8 * (depth - i)) as u32).to_be_bytes());
                    chain.extend_from_slice(&typ);
                }
                let mut bytes = b.bytes.clone();
                // as the last child, or as the first one (in front of whatever the host looks for)
                let e = if first { host.start + host.header + host.prefix.min(host.size - host.header) } else { host.end() };
                for a in anc.iter().chain(std::iter::once(host)) {
                    if a.header == 8 {
                        let cur = u32::from_be_bytes(bytes[a.start..a.start + 4].try_into().unwrap()) as u64;
                        bytes[a.start..a.start + 4].copy_from_slice(&((cur + chain.len() as u64) as u32).to_be_bytes());
                    }
                }
                bytes.splice(e..e, chain);
                each(ctx, &AdvCase { bytes, desc: format!("{}: {} '{}' boxes nested in one another as the {} child of {} at {}", b.name, depth, String::from_utf8_lossy(&typ), if first { "first" } else { "last" }, host.name(), host.start), touched: vec![FieldKind::Size], base: bi, baseline: None });
            }
        }
    }
    ctx.extra.insert("deep_nest_cases".into(), serde_json::json!(idx));
    // ---- boxes of the specification the library has no decoder for today, in place of their
    // siblings: the compact sample size box (stz2; 4-, 8- and 16-bit entries) instead of stsz, with an
    // honest and with inflated sample counts. Skipped as unknown by the current reader.
    ctx.stage("spec-alternatives");
    let mut idx = 0u64;
    for (bi, b) in bases.iter().enumerate().filter(|(_, b)| !b.canned) {
        let mut found: Vec<(Vec<&PBox>, &PBox)> = Vec::new();
        fn walk2<'a>(boxes: &'a [PBox], anc: &mut Vec<&'a PBox>, out: &mut Vec<(Vec<&'a PBox>, &'a PBox)>) {
            for pb in boxes {
                if pb.typ == cc("stsz") && pb.header == 8 && pb.size >= 20 {
                    out.push((anc.clone(), pb));
                }
                anc.push(pb);
                walk2(&pb.children, anc, out);
                anc.pop();
            }
        }
        walk2(&b.boxes, &mut Vec::new(), &mut found);
        for (anc, pb) in &found {
            let body = &b.bytes[pb.start + 8..pb.end()];
            let constant = u32::from_be_bytes(body[4..8].try_into().unwrap());
            let n = u32::from_be_bytes(body[8..12].try_into().unwrap());
            let sizes: Vec<u32> = if constant != 0 { vec![constant; n.min(4096) as usize] } else { body[12..].chunks_exact(4).map(|c| u32::from_be_bytes(c.try_into().unwrap())).collect() };
            for field in [4u8, 8, 16] {
                for count in [n, n.wrapping_add(1), 1 << 20, 0x0fff_ffff, 0x7fff_ffff, u32::MAX] {
                    let my = idx;
                    idx += 1;
                    if !ctx.enter(my) {
                        continue;
                    }
                    let mut p = vec![0u8, 0, 0, 0, 0, 0, 0, field];
                    p.extend_from_slice(&count.to_be_bytes());
                    match field {
                        4 => {
                            for pair in sizes.chunks(2) {
                                p.push(((pair[0] & 0xf) as u8) << 4 | (pair.get(1).copied().unwrap_or(0) & 0xf) as u8);
                            }
                        }
                        8 => p.extend(sizes.iter().map(|x| *x as u8)),
                        _ => sizes.iter().for_each(|x| p.extend_from_slice(&(*x as u16).to_be_bytes())),
                    }
                    let mut bx = ((p.len() + 8) as u32).to_be_bytes().to_vec();
                    bx.extend_from_slice(b"stz2");
                    bx.extend(p);
                    let delta = bx.len() as i64 - pb.size as i64;
                    let mut bytes = b.bytes.clone();
                    for a in anc.iter() {
                        if a.header == 8 {
                            let cur = u32::from_be_bytes(bytes[a.start..a.start + 4].try_into().unwrap()) as i64;
                            bytes[a.start..a.start + 4].copy_from_slice(&((cur + delta).max(0) as u32).to_be_bytes());
                        }
                    }
                    bytes.splice(pb.start..pb.end(), bx);
                    each(ctx, &AdvCase { bytes, desc: format!("{}: stsz at {} replaced by stz2 with {}-bit entries, sample_count {} (table holds {})", b.name, pb.start, field, count, sizes.len()), touched: vec![FieldKind::Count], base: bi, baseline: None });
                }
            }
        }
    }
    ctx.extra.insert("spec_alternative_cases".into(), serde_json::json!(idx));
    // ---- the sample-offset arithmetic at the top of the 64-bit range: a constant-size track in one
    // chunk whose 64-bit chunk offset, samples-per-chunk, sample count and sample size are raised
    // together so that offset + index x size overflows by a small or a large margin. Each lookup
    // must fail (or succeed) in constant time; the driver asks for ids around the count, 2^31 and 2^32-1.
    ctx.stage("offset-overflow");
    let mut idx = 0u64;
    {
        let mut runner = crate::gen::fixed_runner(21);
        let mut t = crate::gen::draw(&crate::gen::table_track(1, 6), &mut runner);
        // (a draw with at least one sample)
        for _ in 0..8 {
            if !t.samples.is_empty() {
                break;
            }
            t = crate::gen::draw(&crate::gen::table_track(1, 6), &mut runner);
        }
        for s in t.samples.iter_mut() {
            s.size = 16;
        }
        t.chunks = vec![t.samples.len() as u32];
        t.stsc_breaks = vec![false];
        t.co64 = true;
        t.fixed_stsz = true;
        if !t.samples.is_empty() {
            let base = crate::refmp4::movie::build(&crate::gen::movie_shell(vec![t])).bytes;
            let find = |cc4: &[u8; 4]| base.windows(4).position(|w| w == cc4);
            if let (Some(pz), Some(pc), Some(po)) = (find(b"stsz"), find(b"stsc"), find(b"co64")) {
                for size in [1u32, 2, 16, 4096, 1 << 20] {
                    for spc in [1u32 << 31, (1 << 31) + 7, u32::MAX] {
                        for count in [(1u32 << 31) + 5, u32::MAX] {
                            for off in [u64::MAX - (size as u64) * (1u64 << 32) + 2, u64::MAX - (size as u64) * (1u64 << 31), 0xffff_ffff_0000_0002, u64::MAX - 15, 1u64 << 63] {
                                let my = idx;
                                idx += 1;
                                if !ctx.enter(my) {
                                    continue;
                                }
                                let mut bytes = base.clone();
                                bytes[pz + 8..pz + 12].copy_from_slice(&size.to_be_bytes());
                                bytes[pz + 12..pz + 16].copy_from_slice(&count.to_be_bytes());
                                bytes[pc + 16..pc + 20].copy_from_slice(&spc.to_be_bytes());
                                bytes[po + 12..po + 20].copy_from_slice(&off.to_be_bytes());
                                each(ctx, &AdvCase { bytes, desc: format!("constant-size track: sample_size {}, sample_count {}, samples_per_chunk {}, 64-bit chunk offset {:#x}", size, count, spc, off), touched: vec![FieldKind::Offset, FieldKind::Count, FieldKind::Length], base: 0, baseline: None });
                            }
                        }
                    }
                }
            }
        }
    }
    ctx.extra.insert("offset_overflow_cases".into(), serde_json::json!(idx));
    // ---- oversize-child chains (super-linear work): r sibling copies of a container, cut right after
    // the header of its last child, whose size is stretched over all later copies up to the shared
    // original payload of that child. The size guards reject the first copy; a weakened guard lets
    // every copy re-scan the rest of the chain (quadratic work on a linear-size input).
    ctx.stage("chains");
    let r = chain_r.max(2);
    let mut idx = 0u64;
    for (bi, b) in bases.iter().enumerate() {
        if !(b.name == "sink0" || b.name == "sinkfrag0" || b.name == "sink1") {
            continue;
        }
        let mut flat: Vec<(Vec<&PBox>, &PBox)> = Vec::new();
        fn collect<'a>(boxes: &'a [PBox], anc: &mut Vec<&'a PBox>, out: &mut Vec<(Vec<&'a PBox>, &'a PBox)>) {
            for pb in boxes {
                out.push((anc.clone(), pb));
                anc.push(pb);
                collect(&pb.children, anc, out);
                anc.pop();
            }
        }
        collect(&b.boxes, &mut Vec::new(), &mut flat);
        for (anc, c) in &flat {
            if c.header != 8 || c.prefix != 0 || !matches!(&c.typ[..], b"moov" | b"trak" | b"mdia" | b"minf" | b"moof") {
                continue;
            }
            for k in c.children.iter().filter(|k| k.header == 8 && !k.children.is_empty() && matches!(&k.typ[..], b"trak" | b"mdia" | b"minf" | b"stbl" | b"traf" | b"udta" | b"mvex")) {
                let my = idx;
                idx += 1;
                if !ctx.enter(my) {
                    continue;
                }
                let (cs, ce, ks, ke) = (c.start, c.end(), k.start, k.end());
                // smallest valid copy of the container: its header, 8-byte stubs for required
                // fixed-layout children (their decoders read past the declared size and then seek back
                // to it), complete copies of the required children that check their size, and the
                // header of the stretched child
                let mut prefix: Vec<u8> = b.bytes[cs..cs + 8].to_vec();
                for x in &c.children {
                    if x.start == k.start {
                        break;
                    }
                    match &x.typ[..] {
                        b"mvhd" | b"tkhd" | b"mdhd" | b"mfhd" => {
                            prefix.extend_from_slice(&8u32.to_be_bytes());
                            prefix.extend_from_slice(&x.typ);
                        }
                        b"hdlr" | b"dinf" => prefix.extend_from_slice(&b.bytes[x.start..x.end()]),
                        _ => {}
                    }
                }
                let k_rel = prefix.len();
                prefix.extend_from_slice(&b.bytes[ks..ks + 8]);
                let k_payload = &b.bytes[ks + 8..ke];
                let plen = prefix.len();
                let chain_len = plen * r + k_payload.len();
                let mut out: Vec<u8> = Vec::with_capacity(b.bytes.len() + 2 * chain_len + 16);
                out.extend_from_slice(&b.bytes[..cs]);
                for i in 0..r {
                    let at = out.len();
                    out.extend_from_slice(&prefix);
                    // container ends right after the header of its stretched child
                    out[at..at + 4].copy_from_slice(&(plen as u32).to_be_bytes());
                    let k_at = at + k_rel;
                    let k_size = chain_len - (i * plen + k_rel);
                    out[k_at..k_at + 4].copy_from_slice(&(k_size as u32).to_be_bytes());
                }
                out.extend_from_slice(k_payload);
                out.extend_from_slice(&b.bytes[ce..]);
                let delta = chain_len as i64 - (ce - cs) as i64;
                for a in anc {
                    if a.header == 8 {
                        let cur = u32::from_be_bytes(out[a.start..a.start + 4].try_into().unwrap()) as i64;
                        out[a.start..a.start + 4].copy_from_slice(&((cur + delta).max(0) as u32).to_be_bytes());
                    }
                }
                // padding in front, so that the chain lies in the second half of the file (a guard that
                // compares a size with an absolute offset only lets oversize children through there)
                let top_start = anc.first().map(|a| a.start).unwrap_or(cs);
                let mut pad: Vec<u8> = Vec::with_capacity(chain_len + 8);
                pad.extend_from_slice(&((chain_len + 8) as u32).to_be_bytes());
                pad.extend_from_slice(b"free");
                pad.resize(chain_len + 8, 0);
                out.splice(top_start..top_start, pad);
                each(ctx, &AdvCase { bytes: out, desc: format!("{}: chain of {} minimal {} boxes whose child {} is stretched over the rest of the chain (copy = {} bytes)", b.name, r, c.name(), k.name(), plen), touched: vec![FieldKind::Size], base: bi, baseline: None });
            }
        }
    }
    ctx.extra.insert("chain_cases".into(), serde_json::json!(idx));
    ctx.extra.insert("chain_length".into(), serde_json::json!(r));
    // ---- a box with one field off, twice in a row: what an error-tolerant loop does with the first
    // copy decides where it looks for the second ----
    ctx.stage("dup-mutated");
    let mut idx = 0u64;
    for (bi, b) in bases.iter().enumerate() {
        if b.canned || b.name.starts_with("gen") {
            continue;
        }
        let mut flat: Vec<(Vec<&PBox>, &PBox)> = Vec::new();
        fn collect3<'a>(boxes: &'a [PBox], anc: &mut Vec<&'a PBox>, out: &mut Vec<(Vec<&'a PBox>, &'a PBox)>) {
            for pb in boxes {
                out.push((anc.clone(), pb));
                anc.push(pb);
                collect3(&pb.children, anc, out);
                anc.pop();
            }
        }
        collect3(&b.boxes, &mut Vec::new(), &mut flat);
        for (anc, x) in flat.iter() {
            if x.size > 4096 {
                continue;
            }
            // fields of the box itself (not of its children)
            let own = b.fields.iter().filter(|f| f.off >= x.start && f.off < x.end() && !x.children.iter().any(|c| f.off >= c.start && f.off < c.end()) && weight(f.kind) != 0);
            for f in own {
                let vmax = if f.width >= 8 { u64::MAX } else { (1u64 << (8 * f.width)) - 1 };
                for v in [vmax, 0u64, vmax >> 1] {
                    let my = idx;
                    idx += 1;
                    if !ctx.enter(my) {
                        continue;
                    }
                    let mut whole = b.bytes.clone();
                    write_field(&mut whole, f, v);
                    let unit = whole[x.start..x.end()].to_vec();
                    let mut out: Vec<u8> = Vec::with_capacity(b.bytes.len() + unit.len());
                    out.extend_from_slice(&b.bytes[..x.start]);
                    out.extend_from_slice(&unit);
                    out.extend_from_slice(&unit);
                    out.extend_from_slice(&b.bytes[x.end()..]);
                    for a in anc.iter() {
                        if a.header >= 16 {
                            let cur = u64::from_be_bytes(out[a.start + 8..a.start + 16].try_into().unwrap());
                            out[a.start + 8..a.start + 16].copy_from_slice(&(cur + unit.len() as u64).to_be_bytes());
                        } else {
                            let cur = u32::from_be_bytes(out[a.start..a.start + 4].try_into().unwrap()) as u64;
                            out[a.start..a.start + 4].copy_from_slice(&((cur + unit.len() as u64).min(u32::MAX as u64) as u32).to_be_bytes());
                        }
                    }
                    each(ctx, &AdvCase { bytes: out, desc: format!("{}: {} with {} := {:#x}, twice in a row", b.name, x.name(), fname(f), v), touched: vec![f.kind], base: bi, baseline: None });
                }
            }
        }
    }
    ctx.extra.insert("dup_mutated_cases".into(), serde_json::json!(idx));
    // ---- amplification: a trak (or traf) whose count/length field claims more than the box holds
    // is repeated k times in front of a large padding area. A decoder that follows such a field
    // beyond the end of its own box - and only seeks back afterwards - reads the padding once per
    // copy: bytes transferred and memory then grow with k * padding instead of with the file ----
    ctx.stage("amplify");
    let (k_copies, pad_len) = ctx.pick((200usize, 512usize << 10), (400usize, 1usize << 20));
    let mut idx = 0u64;
    for (bi, b) in bases.iter().enumerate() {
        if !(b.name == "sink0" || b.name == "sink1" || b.name == "sinkfrag0") {
            continue;
        }
        let mut flat: Vec<(Vec<&PBox>, &PBox)> = Vec::new();
        fn collect2<'a>(boxes: &'a [PBox], anc: &mut Vec<&'a PBox>, out: &mut Vec<(Vec<&'a PBox>, &'a PBox)>) {
            for pb in boxes {
                out.push((anc.clone(), pb));
                anc.push(pb);
                collect2(&pb.children, anc, out);
                anc.pop();
            }
        }
        collect2(&b.boxes, &mut Vec::new(), &mut flat);
        for (anc, t) in flat.iter().filter(|(_, t)| matches!(&t.typ[..], b"trak" | b"traf")) {
            for f in b.fields.iter().filter(|f| f.off >= t.start && f.off < t.end() && matches!(f.kind, FieldKind::Count | FieldKind::Length) && weight(f.kind) != 0) {
                for (pi, pattern) in [&[0u8][..], &[0x02, 0x00][..], &[0x00, 0x00, 0x02, 0x00][..], &[0xff][..], &[0x10, 0x10][..], &[0x00, 0x20][..]].iter().enumerate() {
                    let my = idx;
                    idx += 1;
                    if !ctx.enter(my) {
                        continue;
                    }
                    let vmax = if f.width >= 8 { u64::MAX } else { (1u64 << (8 * f.width)) - 1 };
                    let mut unit = b.bytes[t.start..t.end()].to_vec();
                    {
                        let mut whole = b.bytes.clone();
                        write_field(&mut whole, f, vmax);
                        unit.copy_from_slice(&whole[t.start..t.end()]);
                    }
                    let mut out: Vec<u8> = Vec::with_capacity(b.bytes.len() + unit.len() * k_copies + pad_len + 16);
                    out.extend_from_slice(&b.bytes[..t.start]);
                    for _ in 0..k_copies {
                        out.extend_from_slice(&unit);
                    }
                    out.extend_from_slice(&b.bytes[t.end()..]);
                    let grow = (unit.len() * (k_copies - 1)) as u64;
                    for a in anc.iter() {
                        if a.header >= 16 {
                            let cur = u64::from_be_bytes(out[a.start + 8..a.start + 16].try_into().unwrap());
                            out[a.start + 8..a.start + 16].copy_from_slice(&(cur + grow).to_be_bytes());
                        } else {
                            let cur = u32::from_be_bytes(out[a.start..a.start + 4].try_into().unwrap()) as u64;
                            out[a.start..a.start + 4].copy_from_slice(&((cur + grow).min(u32::MAX as u64) as u32).to_be_bytes());
                        }
                    }
                    out.extend_from_slice(&((8 + pad_len) as u32).to_be_bytes());
                    out.extend_from_slice(b"free");
                    out.extend(pattern.iter().cycle().take(pad_len));
                    each(ctx, &AdvCase { bytes: out, desc: format!("{}: {} x{} with {} := {:#x}, then {} KiB of padding (pattern {})", b.name, String::from_utf8_lossy(&t.typ), k_copies, fname(f), vmax, pad_len >> 10, pi), touched: vec![f.kind], base: bi, baseline: None });
                }
            }
        }
    }
    ctx.extra.insert("amplify_cases".into(), serde_json::json!(idx));
    // ---- big tables: every table box in turn holds tens of thousands of entries in an ordered,
    // reversed, constant, alternating or scrambled pattern (work that is quadratic in a table's
    // length only shows at this scale; honest counts, so the size checks pass) ----
    ctx.stage("big-tables");
    let n_entries: &[usize] = if ctx.quick() { &[100_000] } else { &[100_000, 160_000] };
    let mut idx = 0u64;
    {
        use crate::refmp4::{movie::build, Node, Part};
        fn replace_leaf(nodes: &mut [Node], typ: &[u8; 4], payload: &[u8]) -> bool {
            for n in nodes.iter_mut() {
                if &n.typ == typ && n.children().count() == 0 {
                    n.parts = vec![Part::Raw(payload.to_vec())];
                    return true;
                }
                let mut kids: Vec<&mut Node> = n.children_mut().collect();
                for k in kids.iter_mut() {
                    if replace_leaf(std::slice::from_mut(*k), typ, payload) {
                        return true;
                    }
                }
            }
            false
        }
        // (box, bytes before the entry count after version/flags, words per entry, flags)
        let tables: [(&[u8; 4], usize, usize, u32); 10] = [(b"stts", 0, 2, 0), (b"ctts", 0, 2, 0), (b"stss", 0, 1, 0), (b"stsc", 0, 3, 0), (b"stsz", 4, 1, 0), (b"stco", 0, 1, 0), (b"co64", 0, 2, 0), (b"elst", 0, 3, 0), (b"trun", 0, 4, 0x000f00), (b"trun", 0, 1, 0x000100)];
        for (src, frag) in [(kitchen_sink(0), false), (kitchen_sink_frag(0), true)] {
            let tree0 = build(&src).tree;
            for (typ, pre, words, flags) in tables.iter() {
                if (*typ == b"trun") != frag {
                    continue;
                }
                for &n in n_entries {
                    for pattern in 0..5u32 {
                        let my = idx;
                        idx += 1;
                        if !ctx.enter(my) {
                            continue;
                        }
                        let render = |pattern: u32| -> Option<Vec<u8>> {
                        let mut payload: Vec<u8> = Vec::with_capacity(8 + pre + n * words * 4);
                        payload.extend_from_slice(&flags.to_be_bytes());
                        payload.extend(std::iter::repeat(0u8).take(*pre));
                        payload.extend_from_slice(&(n as u32).to_be_bytes());
                        let mut x = 0x9e37_79b9u64 ^ my;
                        for i in 0..n {
                            let v: u32 = match pattern {
                                0 => i as u32 + 1,
                                1 => (n - i) as u32,
                                2 => 1,
                                3 => if i % 2 == 0 { 1 } else { n as u32 },
                                _ => {
                                    x = crate::engine::splitmix(x);
                                    1 + (x % n as u64) as u32
                                }
                            };
                            for w in 0..*words {
                                // keep counts/deltas of multi-word entries small except the first word
                                payload.extend_from_slice(&(if w == 0 { v } else { 1 + (v % 3) }).to_be_bytes());
                            }
                        }
                        let mut tree = tree0.clone();
                        if !replace_leaf(&mut tree, typ, &payload) {
                            return None;
                        }
                        let mut bytes = Vec::new();
                        for t in &tree {
                            t.render_into(&mut bytes);
                        }
                        Some(bytes)
                        };
                        let Some(bytes) = render(pattern) else { continue };
                        let baseline = if pattern == 0 { None } else { render(0).map(std::sync::Arc::new) };
                        let pname = ["ascending", "descending", "constant", "alternating", "scrambled"][pattern as usize];
                        each(ctx, &AdvCase { bytes, desc: format!("{}: {} with {} {} entries ({} words each)", if frag { "sinkfrag0" } else { "sink0" }, String::from_utf8_lossy(&typ[..]), n, pname, words), touched: vec![FieldKind::Count], base: 0, baseline });
                    }
                }
            }
        }
    }
    // many tracks x many fragments: two honest counts whose product must not drive memory or work
    {
        let my = idx;
        idx += 1;
        if ctx.enter(my) {
            use crate::refmp4::movie::{build, BaseMode, Codec, Fragment, Sample, Traf};
            let (n_tracks, n_frags) = (256usize, 8192usize);
            let opts = gen::TrackOpts { co64: false, fixed_stsz: false, uniform_size: None, uniform_dur: None, has_ctts: false, has_stss: false, sync_mode: 0 };
            let tracks = (0..n_tracks).map(|i| gen::assemble_track(i as u32 + 1, Codec::Ttxt, 1000, *b"und", &[], &opts)).collect();
            let mut m = gen::movie_shell(tracks);
            m.frags = (0..n_frags)
                .map(|fi| Fragment {
                    seq: fi as u32 + 1,
                    mdat_first: false,
                    trafs: vec![Traf { track: fi % n_tracks, base: BaseMode::DefaultBaseIsMoof, tfdt: Some((0, fi as u64)), tfhd_dur: Some(1), tfhd_size: None, tfhd_flags: None, tfhd_sdi: None, trun_dur: false, trun_cts: false, trun_flags: false, trun_first_flags: None, trun_version: 0, lead: 0, samples: vec![Sample { size: 1, dur: 1, cts: 0, sync: true }], has_trun: true, trun_size: true }],
                })
                .collect();
            let bytes = build(&m).bytes;
            each(ctx, &AdvCase { bytes, desc: format!("{} tracks x {} fragments (one traf each)", n_tracks, n_frags), touched: vec![FieldKind::Count], base: 0, baseline: None });
        }
    }
    ctx.extra.insert("big_table_cases".into(), serde_json::json!(idx));
    // ---- prefixes of a few files ----
    ctx.stage("prefixes");
    let mut idx = 0u64;
    for (bi, b) in bases.iter().enumerate() {
        if !(b.name == "sink0" || b.name == "sinkfrag0" || b.name == "minimal.mp4") {
            continue;
        }
        for cut in 0..b.bytes.len() {
            let my = idx;
            idx += 1;
            if !ctx.enter(my) {
                continue;
            }
            each(ctx, &AdvCase { bytes: b.bytes[..cut].to_vec(), desc: format!("{}: prefix of {} bytes", b.name, cut), touched: vec![], base: bi, baseline: None });
        }
    }
}

#[derive(Clone, Debug)]
pub struct HavocOp {
    pub pos: u16,
    pub kind: u8,
    pub val: u32,
    pub len: u8,
}

pub fn havoc_strategy() -> impl Strategy<Value = (u16, Vec<HavocOp>)> {
    (any::<u16>(), prop::collection::vec((any::<u16>(), 0u8..9, prop_oneof![Just(0u32), Just(1), Just(8), Just(0xff), Just(0xffff_ffff), Just(0x7fff_ffff), Just(0x8000_0000), any::<u32>()], 1u8..16).prop_map(|(pos, kind, val, len)| HavocOp { pos, kind, val, len }), 1..7))
}

/// fraction of havoc positions that are snapped to a known field start
pub fn apply_havoc(b: &Base, ops: &[HavocOp]) -> Vec<u8> {
    let mut bytes = b.bytes.clone();
    for op in ops {
        if bytes.is_empty() {
            break;
        }
        let raw = (op.pos as usize * bytes.len()) >> 16;
        // snap to a field start for most kinds so that the mutation lands on something meaningful
        let pos = if op.kind < 5 && !b.fields.is_empty() { b.fields[(op.pos as usize * b.fields.len()) >> 16].off.min(bytes.len() - 1) } else { raw };
        match op.kind {
            0 | 1 => {
                // set u32
                if pos + 4 <= bytes.len() {
                    bytes[pos..pos + 4].copy_from_slice(&op.val.to_be_bytes());
                }
            }
            2 => bytes[pos] = op.val as u8,
            3 => bytes[pos] ^= 1 << (op.val % 8),
            4 => {
                if pos + 2 <= bytes.len() {
                    bytes[pos..pos + 2].copy_from_slice(&(op.val as u16).to_be_bytes());
                }
            }
            5 => bytes[raw] = op.val as u8,
            6 => {
                let n = (op.len as usize).min(bytes.len() - raw);
                bytes.drain(raw..raw + n);
            }
            7 => {
                let ins: Vec<u8> = (0..op.len).map(|i| (op.val >> (8 * (i % 4))) as u8).collect();
                bytes.splice(raw..raw, ins);
            }
            _ => {
                let n = (op.len as usize * 4).min(bytes.len() - raw);
                let copy = bytes[raw..raw + n].to_vec();
                let to = (op.val as usize) % (bytes.len() + 1);
                bytes.splice(to..to, copy);
            }
        }
    }
    bytes
}

pub fn content_fp(bytes: &[u8]) -> u64 {
    fnv64(bytes)
}
