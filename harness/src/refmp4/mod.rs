//! Independent ISO-BMFF implementation used as oracle. Written from the specifications
//! (ISO/IEC 14496-12/-14/-1/-3/-15, VP-Codec-ISOBMFF, 3GPP TS 26.245, ISO/IEC 23009-1, iTunes
//! metadata conventions). Uses only `std`; nothing in this module imports the `mp4` crate.

pub mod movie;
pub mod parse;

use serde::{Deserialize, Serialize};

pub type Cc = [u8; 4];

pub fn cc(s: &str) -> Cc {
    let b = s.as_bytes();
    [b[0], b[1], b[2], b[3]]
}

/// big-endian byte writer
#[derive(Default, Clone, Debug)]
pub struct W(pub Vec<u8>);

impl W {
    pub fn new() -> Self {
        W(Vec::new())
    }
    pub fn u8(&mut self, v: u8) -> &mut Self {
        self.0.push(v);
        self
    }
    pub fn i8(&mut self, v: i8) -> &mut Self {
        self.0.push(v as u8);
        self
    }
    pub fn u16(&mut self, v: u16) -> &mut Self {
        self.0.extend_from_slice(&v.to_be_bytes());
        self
    }
    pub fn i16(&mut self, v: i16) -> &mut Self {
        self.0.extend_from_slice(&v.to_be_bytes());
        self
    }
    pub fn u24(&mut self, v: u32) -> &mut Self {
        self.0.extend_from_slice(&v.to_be_bytes()[1..]);
        self
    }
    pub fn u32(&mut self, v: u32) -> &mut Self {
        self.0.extend_from_slice(&v.to_be_bytes());
        self
    }
    pub fn i32(&mut self, v: i32) -> &mut Self {
        self.0.extend_from_slice(&v.to_be_bytes());
        self
    }
    pub fn u48(&mut self, v: u64) -> &mut Self {
        self.0.extend_from_slice(&v.to_be_bytes()[2..]);
        self
    }
    pub fn u64(&mut self, v: u64) -> &mut Self {
        self.0.extend_from_slice(&v.to_be_bytes());
        self
    }
    pub fn bytes(&mut self, b: &[u8]) -> &mut Self {
        self.0.extend_from_slice(b);
        self
    }
    pub fn zeros(&mut self, n: usize) -> &mut Self {
        self.0.extend(std::iter::repeat(0u8).take(n));
        self
    }
    pub fn cstr(&mut self, s: &str) -> &mut Self {
        self.0.extend_from_slice(s.as_bytes());
        self.0.push(0);
        self
    }
    /// FullBox version + 24-bit flags
    pub fn full(&mut self, version: u8, flags: u32) -> &mut Self {
        self.u8(version).u24(flags)
    }
    pub fn done(&mut self) -> Vec<u8> {
        std::mem::take(&mut self.0)
    }
}

/// A box in a tree: header form, parts (raw payload bytes and child boxes in order), spare bytes
/// appended after the last field/child.
#[derive(Clone, Debug, Serialize, Deserialize, PartialEq, Eq)]
pub struct Node {
    pub typ: Cc,
    pub large: bool,
    pub parts: Vec<Part>,
    pub spare: Vec<u8>,
    /// identity used while applying layout transformations (0 = unassigned)
    #[serde(default)]
    pub tag: u32,
}

#[derive(Clone, Debug, Serialize, Deserialize, PartialEq, Eq)]
pub enum Part {
    Raw(Vec<u8>),
    Child(Node),
    /// that many payload bytes (zeros) which count for every size and position but are not
    /// rendered: files larger than 4 GiB are served from a `GapStream`
    Phantom(u64),
}

impl Node {
    pub fn leaf(typ: &str, payload: Vec<u8>) -> Node {
        Node { typ: cc(typ), large: false, parts: vec![Part::Raw(payload)], spare: vec![], tag: 0 }
    }
    pub fn leaf_cc(typ: Cc, payload: Vec<u8>) -> Node {
        Node { typ, large: false, parts: vec![Part::Raw(payload)], spare: vec![], tag: 0 }
    }
    pub fn container(typ: &str, children: Vec<Node>) -> Node {
        Node { typ: cc(typ), large: false, parts: children.into_iter().map(Part::Child).collect(), spare: vec![], tag: 0 }
    }
    /// raw prefix (e.g. FullBox header / sample entry fields) followed by children
    pub fn mixed(typ: &str, prefix: Vec<u8>, children: Vec<Node>) -> Node {
        let mut parts = vec![Part::Raw(prefix)];
        parts.extend(children.into_iter().map(Part::Child));
        Node { typ: cc(typ), large: false, parts, spare: vec![], tag: 0 }
    }
    pub fn header_len(&self) -> u64 {
        if self.large {
            16
        } else {
            8
        }
    }
    pub fn payload_len(&self) -> u64 {
        self.parts
            .iter()
            .map(|p| match p {
                Part::Raw(b) => b.len() as u64,
                Part::Child(n) => n.size(),
                Part::Phantom(n) => *n,
            })
            .sum::<u64>()
            + self.spare.len() as u64
    }
    pub fn size(&self) -> u64 {
        self.header_len() + self.payload_len()
    }
    pub fn render_into(&self, out: &mut Vec<u8>) {
        let size = self.size();
        if self.large {
            out.extend_from_slice(&1u32.to_be_bytes());
            out.extend_from_slice(&self.typ);
            out.extend_from_slice(&size.to_be_bytes());
        } else {
            assert!(size <= u32::MAX as u64, "reference encoder: compact header overflow");
            out.extend_from_slice(&(size as u32).to_be_bytes());
            out.extend_from_slice(&self.typ);
        }
        for p in &self.parts {
            match p {
                Part::Raw(b) => out.extend_from_slice(b),
                Part::Child(n) => n.render_into(out),
                Part::Phantom(_) => {}
            }
        }
        out.extend_from_slice(&self.spare);
    }
    pub fn render(&self) -> Vec<u8> {
        let mut v = Vec::with_capacity(self.size() as usize);
        self.render_into(&mut v);
        v
    }
    pub fn children(&self) -> impl Iterator<Item = &Node> {
        self.parts.iter().filter_map(|p| match p {
            Part::Child(n) => Some(n),
            _ => None,
        })
    }
    pub fn children_mut(&mut self) -> impl Iterator<Item = &mut Node> {
        self.parts.iter_mut().filter_map(|p| match p {
            Part::Child(n) => Some(n),
            _ => None,
        })
    }
    pub fn child_mut(&mut self, typ: &str) -> Option<&mut Node> {
        let t = cc(typ);
        self.children_mut().find(|n| n.typ == t)
    }
    pub fn nth_child_mut(&mut self, i: usize) -> Option<&mut Node> {
        self.children_mut().nth(i)
    }
    pub fn n_children(&self) -> usize {
        self.children().count()
    }
    /// insert a child box before the `pos`-th child (pos == n_children appends)
    pub fn insert_child(&mut self, pos: usize, node: Node) {
        let mut seen = 0;
        let mut at = self.parts.len();
        for (i, p) in self.parts.iter().enumerate() {
            if let Part::Child(_) = p {
                if seen == pos {
                    at = i;
                    break;
                }
                seen += 1;
            }
        }
        self.parts.insert(at, Part::Child(node));
    }
}

// ------------------------------------------------------------------------------------------
// Leaf payload encoders (payload only; wrap with Node::leaf)
// ------------------------------------------------------------------------------------------

pub const UNITY_MATRIX: [i32; 9] = [0x00010000, 0, 0, 0, 0x00010000, 0, 0, 0, 0x40000000];

pub fn enc_ftyp(major: Cc, minor: u32, compat: &[Cc]) -> Vec<u8> {
    let mut w = W::new();
    w.bytes(&major).u32(minor);
    for c in compat {
        w.bytes(c);
    }
    w.done()
}

#[allow(clippy::too_many_arguments)]
pub fn enc_mvhd(version: u8, flags: u32, ctime: u64, mtime: u64, timescale: u32, duration: u64, rate: u32, volume: u16, matrix: &[i32; 9], next_track_id: u32) -> Vec<u8> {
    let mut w = W::new();
    w.full(version, flags);
    if version == 1 {
        w.u64(ctime).u64(mtime).u32(timescale).u64(duration);
    } else {
        w.u32(ctime as u32).u32(mtime as u32).u32(timescale).u32(duration as u32);
    }
    w.u32(rate).u16(volume).u16(0).u64(0);
    for m in matrix {
        w.i32(*m);
    }
    w.zeros(24).u32(next_track_id);
    w.done()
}

#[allow(clippy::too_many_arguments)]
pub fn enc_tkhd(version: u8, flags: u32, ctime: u64, mtime: u64, track_id: u32, duration: u64, layer: u16, alt_group: u16, volume: u16, matrix: &[i32; 9], width: u32, height: u32) -> Vec<u8> {
    let mut w = W::new();
    w.full(version, flags);
    if version == 1 {
        w.u64(ctime).u64(mtime).u32(track_id).u32(0).u64(duration);
    } else {
        w.u32(ctime as u32).u32(mtime as u32).u32(track_id).u32(0).u32(duration as u32);
    }
    w.u64(0).u16(layer).u16(alt_group).u16(volume).u16(0);
    for m in matrix {
        w.i32(*m);
    }
    w.u32(width).u32(height);
    w.done()
}

/// ISO-639-2/T packed language: 1 pad bit + 3 x 5 bits, each (char - 0x60)
pub fn pack_lang(lang: &[u8; 3]) -> u16 {
    (((lang[0].wrapping_sub(0x60)) as u16 & 0x1f) << 10) | (((lang[1].wrapping_sub(0x60)) as u16 & 0x1f) << 5) | ((lang[2].wrapping_sub(0x60)) as u16 & 0x1f)
}

pub fn unpack_lang(code: u16) -> [u8; 3] {
    [(((code >> 10) & 0x1f) as u8) + 0x60, (((code >> 5) & 0x1f) as u8) + 0x60, ((code & 0x1f) as u8) + 0x60]
}

pub fn enc_mdhd(version: u8, flags: u32, ctime: u64, mtime: u64, timescale: u32, duration: u64, lang: &[u8; 3]) -> Vec<u8> {
    let mut w = W::new();
    w.full(version, flags);
    if version == 1 {
        w.u64(ctime).u64(mtime).u32(timescale).u64(duration);
    } else {
        w.u32(ctime as u32).u32(mtime as u32).u32(timescale).u32(duration as u32);
    }
    w.u16(pack_lang(lang)).u16(0);
    w.done()
}

pub fn enc_hdlr(version: u8, flags: u32, handler: Cc, name: &str) -> Vec<u8> {
    let mut w = W::new();
    w.full(version, flags).u32(0).bytes(&handler).zeros(12).cstr(name);
    w.done()
}

/// entries: (segment_duration, media_time, rate_int, rate_frac)
pub fn enc_elst(version: u8, flags: u32, entries: &[(u64, u64, u16, u16)]) -> Vec<u8> {
    let mut w = W::new();
    w.full(version, flags).u32(entries.len() as u32);
    for e in entries {
        if version == 1 {
            w.u64(e.0).u64(e.1);
        } else {
            w.u32(e.0 as u32).u32(e.1 as u32);
        }
        w.u16(e.2).u16(e.3);
    }
    w.done()
}

pub fn enc_vmhd(version: u8, flags: u32, graphics_mode: u16, op: [u16; 3]) -> Vec<u8> {
    let mut w = W::new();
    w.full(version, flags).u16(graphics_mode).u16(op[0]).u16(op[1]).u16(op[2]);
    w.done()
}

pub fn enc_smhd(version: u8, flags: u32, balance: i16) -> Vec<u8> {
    let mut w = W::new();
    w.full(version, flags).i16(balance).u16(0);
    w.done()
}

pub fn enc_url(version: u8, flags: u32, location: &str) -> Vec<u8> {
    let mut w = W::new();
    w.full(version, flags);
    if !location.is_empty() {
        w.cstr(location);
    }
    w.done()
}

pub fn node_dref(version: u8, flags: u32, entries: Vec<Node>) -> Node {
    let mut w = W::new();
    w.full(version, flags).u32(entries.len() as u32);
    Node::mixed("dref", w.done(), entries)
}

pub fn node_dinf_default() -> Node {
    Node::container("dinf", vec![node_dref(0, 0, vec![Node::leaf("url ", enc_url(0, 1, ""))])])
}

pub fn enc_stts(version: u8, flags: u32, entries: &[(u32, u32)]) -> Vec<u8> {
    let mut w = W::new();
    w.full(version, flags).u32(entries.len() as u32);
    for e in entries {
        w.u32(e.0).u32(e.1);
    }
    w.done()
}

pub fn enc_ctts(version: u8, flags: u32, entries: &[(u32, i32)]) -> Vec<u8> {
    let mut w = W::new();
    w.full(version, flags).u32(entries.len() as u32);
    for e in entries {
        w.u32(e.0).i32(e.1);
    }
    w.done()
}

pub fn enc_stss(version: u8, flags: u32, entries: &[u32]) -> Vec<u8> {
    let mut w = W::new();
    w.full(version, flags).u32(entries.len() as u32);
    for e in entries {
        w.u32(*e);
    }
    w.done()
}

/// entries: (first_chunk, samples_per_chunk, sample_description_index)
pub fn enc_stsc(version: u8, flags: u32, entries: &[(u32, u32, u32)]) -> Vec<u8> {
    let mut w = W::new();
    w.full(version, flags).u32(entries.len() as u32);
    for e in entries {
        w.u32(e.0).u32(e.1).u32(e.2);
    }
    w.done()
}

pub fn enc_stsz(version: u8, flags: u32, sample_size: u32, sample_count: u32, sizes: &[u32]) -> Vec<u8> {
    let mut w = W::new();
    w.full(version, flags).u32(sample_size).u32(sample_count);
    if sample_size == 0 {
        for s in sizes {
            w.u32(*s);
        }
    }
    w.done()
}

pub fn enc_stco(version: u8, flags: u32, entries: &[u32]) -> Vec<u8> {
    let mut w = W::new();
    w.full(version, flags).u32(entries.len() as u32);
    for e in entries {
        w.u32(*e);
    }
    w.done()
}

pub fn enc_co64(version: u8, flags: u32, entries: &[u64]) -> Vec<u8> {
    let mut w = W::new();
    w.full(version, flags).u32(entries.len() as u32);
    for e in entries {
        w.u64(*e);
    }
    w.done()
}

/// VisualSampleEntry fixed part (78 bytes). `pre` are the 6 reserved bytes, `pre16` the 16
/// pre_defined/reserved bytes, `res4` the reserved 4 bytes, `tail` the final pre_defined i16.
#[allow(clippy::too_many_arguments)]
pub fn enc_visual_entry(pre: &[u8; 6], data_ref: u16, pre16: &[u8; 16], width: u16, height: u16, hres: u32, vres: u32, res4: &[u8; 4], frame_count: u16, compressor: &[u8; 32], depth: u16, tail: u16) -> Vec<u8> {
    let mut w = W::new();
    w.bytes(pre).u16(data_ref).bytes(pre16).u16(width).u16(height).u32(hres).u32(vres).bytes(res4).u16(frame_count).bytes(compressor).u16(depth).u16(tail);
    w.done()
}

pub fn enc_visual_entry_std(data_ref: u16, width: u16, height: u16, hres: u32, vres: u32, frame_count: u16, depth: u16) -> Vec<u8> {
    enc_visual_entry(&[0; 6], data_ref, &[0; 16], width, height, hres, vres, &[0; 4], frame_count, &[0; 32], depth, 0xffff)
}

#[allow(clippy::too_many_arguments)]
pub fn enc_avcc(config_version: u8, profile: u8, compat: u8, level: u8, length_size_minus_one: u8, sps: &[Vec<u8>], pps: &[Vec<u8>]) -> Vec<u8> {
    let mut w = W::new();
    w.u8(config_version).u8(profile).u8(compat).u8(level);
    w.u8(0xfc | (length_size_minus_one & 3));
    w.u8(0xe0 | (sps.len() as u8 & 0x1f));
    for s in sps {
        w.u16(s.len() as u16).bytes(s);
    }
    w.u8(pps.len() as u8);
    for p in pps {
        w.u16(p.len() as u16).bytes(p);
    }
    w.done()
}

#[derive(Clone, Debug, Default, Serialize, Deserialize, PartialEq, Eq)]
pub struct HvcC {
    pub configuration_version: u8,
    pub general_profile_space: u8,     // 2 bits
    pub general_tier_flag: bool,       // 1
    pub general_profile_idc: u8,       // 5
    pub general_profile_compatibility_flags: u32,
    pub general_constraint_indicator_flags: u64, // 48
    pub general_level_idc: u8,
    pub min_spatial_segmentation_idc: u16, // 12
    pub parallelism_type: u8,              // 2
    pub chroma_format_idc: u8,             // 2
    pub bit_depth_luma_minus8: u8,         // 3
    pub bit_depth_chroma_minus8: u8,       // 3
    pub avg_frame_rate: u16,
    pub constant_frame_rate: u8, // 2
    pub num_temporal_layers: u8, // 3
    pub temporal_id_nested: bool,
    pub length_size_minus_one: u8, // 2
    /// (array_completeness, nal_unit_type (6 bits), nalus)
    pub arrays: Vec<(bool, u8, Vec<Vec<u8>>)>,
}

/// `reserved_ones`: whether the reserved bit groups carry the '1' bits ISO/IEC 14496-15 prescribes.
pub fn enc_hvcc(h: &HvcC, reserved_ones: bool) -> Vec<u8> {
    let r = |bits: u8| if reserved_ones { bits } else { 0 };
    let mut w = W::new();
    w.u8(h.configuration_version);
    w.u8(((h.general_profile_space & 3) << 6) | ((h.general_tier_flag as u8) << 5) | (h.general_profile_idc & 0x1f));
    w.u32(h.general_profile_compatibility_flags);
    w.u48(h.general_constraint_indicator_flags & 0xffff_ffff_ffff);
    w.u8(h.general_level_idc);
    w.u16(((r(0x0f) as u16) << 12) | (h.min_spatial_segmentation_idc & 0x0fff));
    w.u8(r(0xfc) | (h.parallelism_type & 3));
    w.u8(r(0xfc) | (h.chroma_format_idc & 3));
    w.u8(r(0xf8) | (h.bit_depth_luma_minus8 & 7));
    w.u8(r(0xf8) | (h.bit_depth_chroma_minus8 & 7));
    w.u16(h.avg_frame_rate);
    w.u8(((h.constant_frame_rate & 3) << 6) | ((h.num_temporal_layers & 7) << 3) | ((h.temporal_id_nested as u8) << 2) | (h.length_size_minus_one & 3));
    w.u8(h.arrays.len() as u8);
    for (complete, typ, nalus) in &h.arrays {
        w.u8(((*complete as u8) << 7) | (typ & 0x3f));
        w.u16(nalus.len() as u16);
        for n in nalus {
            w.u16(n.len() as u16).bytes(n);
        }
    }
    w.done()
}

/// byte positions (within an hvcC payload) of the bits ISO reserves as '1': (offset, mask)
pub const HVCC_RESERVED_MASKS: [(usize, u8); 5] = [(13, 0xf0), (15, 0xfc), (16, 0xfc), (17, 0xf8), (18, 0xf8)];

#[allow(clippy::too_many_arguments)]
pub fn enc_vpcc(version: u8, flags: u32, profile: u8, level: u8, bit_depth: u8, chroma_subsampling: u8, full_range: bool, colour_primaries: u8, transfer: u8, matrix: u8, init_size: u16, init_data: &[u8]) -> Vec<u8> {
    let mut w = W::new();
    w.full(version, flags).u8(profile).u8(level);
    w.u8(((bit_depth & 0xf) << 4) | ((chroma_subsampling & 7) << 1) | full_range as u8);
    w.u8(colour_primaries).u8(transfer).u8(matrix).u16(init_size).bytes(init_data);
    w.done()
}

/// AudioSampleEntry fixed part (28 bytes)
pub fn enc_audio_entry(data_ref: u16, channelcount: u16, samplesize: u16, samplerate: u32) -> Vec<u8> {
    let mut w = W::new();
    w.zeros(6).u16(data_ref).zeros(8).u16(channelcount).u16(samplesize).u16(0).u16(0).u32(samplerate);
    w.done()
}

/// expandable-length prefix of MPEG-4 descriptors. `pad`: total number of length bytes to use
/// (0 = minimal); padded with leading 0x80 continuation bytes.
pub fn enc_desc_len(len: u32, pad: usize) -> Vec<u8> {
    let mut groups = vec![(len & 0x7f) as u8];
    let mut rest = len >> 7;
    while rest > 0 {
        groups.push((rest & 0x7f) as u8);
        rest >>= 7;
    }
    while groups.len() < pad {
        groups.push(0);
    }
    groups.reverse();
    let n = groups.len();
    for (i, g) in groups.iter_mut().enumerate() {
        if i + 1 < n {
            *g |= 0x80;
        }
    }
    groups
}

pub fn enc_desc(tag: u8, body: &[u8], pad: usize) -> Vec<u8> {
    let mut v = vec![tag];
    v.extend(enc_desc_len(body.len() as u32, pad));
    v.extend_from_slice(body);
    v
}

/// bit writer (MSB first)
#[derive(Default)]
pub struct BitW {
    pub out: Vec<u8>,
    cur: u8,
    n: u8,
}
impl BitW {
    pub fn put(&mut self, value: u32, bits: u8) {
        for i in (0..bits).rev() {
            let b = ((value >> i) & 1) as u8;
            self.cur = (self.cur << 1) | b;
            self.n += 1;
            if self.n == 8 {
                self.out.push(self.cur);
                self.cur = 0;
                self.n = 0;
            }
        }
    }
    pub fn finish(mut self) -> Vec<u8> {
        if self.n > 0 {
            self.cur <<= 8 - self.n;
            self.out.push(self.cur);
        }
        self.out
    }
}

/// AudioSpecificConfig per ISO/IEC 14496-3 1.6.2.1 (object type with 31-escape, frequency index
/// with 15-escape, channel configuration, then GASpecificConfig's three zero flag bits).
pub fn enc_asc(object_type: u8, freq_index: u8, explicit_freq: u32, chan: u8) -> Vec<u8> {
    let mut b = BitW::default();
    if object_type >= 32 {
        b.put(31, 5);
        b.put((object_type - 32) as u32, 6);
    } else {
        b.put(object_type as u32, 5);
    }
    b.put(freq_index as u32, 4);
    if freq_index == 15 {
        b.put(explicit_freq, 24);
    }
    b.put(chan as u32, 4);
    b.put(0, 3); // frameLengthFlag, dependsOnCoreCoder, extensionFlag
    b.finish()
}

#[derive(Clone, Debug, Serialize, Deserialize, PartialEq, Eq)]
pub struct Esds {
    pub version: u8,
    pub flags: u32,
    pub es_id: u16,
    pub object_type_indication: u8,
    pub stream_type: u8, // 6 bits
    pub up_stream: bool,
    pub buffer_size_db: u32, // 24 bits
    pub max_bitrate: u32,
    pub avg_bitrate: u32,
    /// raw DecoderSpecificInfo payload (AudioSpecificConfig)
    pub asc: Vec<u8>,
    /// number of bytes for each descriptor length (0 = minimal)
    pub len_pad: usize,
    /// streamPriority (low 5 bits of the byte after ES_ID; the three flag bits stay 0: no optional fields)
    pub priority: u8,
}

pub fn enc_esds(e: &Esds) -> Vec<u8> {
    let dsi = enc_desc(0x05, &e.asc, e.len_pad);
    let mut dc = W::new();
    dc.u8(e.object_type_indication).u8((e.stream_type << 2) | ((e.up_stream as u8) << 1) | 1).u24(e.buffer_size_db).u32(e.max_bitrate).u32(e.avg_bitrate).bytes(&dsi);
    let dcd = enc_desc(0x04, &dc.done(), e.len_pad);
    let sl = enc_desc(0x06, &[2], e.len_pad);
    let mut es = W::new();
    es.u16(e.es_id).u8(e.priority & 0x1f).bytes(&dcd).bytes(&sl);
    let esd = enc_desc(0x03, &es.done(), e.len_pad);
    let mut w = W::new();
    w.full(e.version, e.flags).bytes(&esd);
    w.done()
}

#[allow(clippy::too_many_arguments)]
pub fn enc_tx3g(data_ref: u16, display_flags: u32, hj: i8, vj: i8, bg: [u8; 4], box_record: [i16; 4], style: &[u8; 12]) -> Vec<u8> {
    let mut w = W::new();
    w.zeros(6).u16(data_ref).u32(display_flags).i8(hj).i8(vj).bytes(&bg);
    for b in box_record {
        w.i16(b);
    }
    w.bytes(style);
    w.done()
}

pub fn enc_mehd(version: u8, flags: u32, duration: u64) -> Vec<u8> {
    let mut w = W::new();
    w.full(version, flags);
    if version == 1 {
        w.u64(duration);
    } else {
        w.u32(duration as u32);
    }
    w.done()
}

pub fn enc_trex(version: u8, flags: u32, track_id: u32, desc_idx: u32, dur: u32, size: u32, sflags: u32) -> Vec<u8> {
    let mut w = W::new();
    w.full(version, flags).u32(track_id).u32(desc_idx).u32(dur).u32(size).u32(sflags);
    w.done()
}

pub fn enc_mfhd(version: u8, flags: u32, seq: u32) -> Vec<u8> {
    let mut w = W::new();
    w.full(version, flags).u32(seq);
    w.done()
}

pub const TFHD_BASE: u32 = 0x1;
pub const TFHD_SDI: u32 = 0x2;
pub const TFHD_DUR: u32 = 0x8;
pub const TFHD_SIZE: u32 = 0x10;
pub const TFHD_FLAGS: u32 = 0x20;
pub const TFHD_EMPTY: u32 = 0x10000;
pub const TFHD_BASE_IS_MOOF: u32 = 0x20000;

#[allow(clippy::too_many_arguments)]
pub fn enc_tfhd(version: u8, flags: u32, track_id: u32, base: Option<u64>, sdi: Option<u32>, dur: Option<u32>, size: Option<u32>, sflags: Option<u32>) -> Vec<u8> {
    let mut w = W::new();
    w.full(version, flags).u32(track_id);
    if flags & TFHD_BASE != 0 {
        w.u64(base.unwrap_or(0));
    }
    if flags & TFHD_SDI != 0 {
        w.u32(sdi.unwrap_or(0));
    }
    if flags & TFHD_DUR != 0 {
        w.u32(dur.unwrap_or(0));
    }
    if flags & TFHD_SIZE != 0 {
        w.u32(size.unwrap_or(0));
    }
    if flags & TFHD_FLAGS != 0 {
        w.u32(sflags.unwrap_or(0));
    }
    w.done()
}

pub fn enc_tfdt(version: u8, flags: u32, t: u64) -> Vec<u8> {
    let mut w = W::new();
    w.full(version, flags);
    if version == 1 {
        w.u64(t);
    } else {
        w.u32(t as u32);
    }
    w.done()
}

pub const TRUN_OFFSET: u32 = 0x1;
pub const TRUN_FIRST_FLAGS: u32 = 0x4;
pub const TRUN_DUR: u32 = 0x100;
pub const TRUN_SIZE: u32 = 0x200;
pub const TRUN_FLAGS: u32 = 0x400;
pub const TRUN_CTS: u32 = 0x800;

/// per-sample tuple: (duration, size, flags, cts)
pub fn enc_trun(version: u8, flags: u32, sample_count: u32, data_offset: Option<i32>, first_flags: Option<u32>, samples: &[(u32, u32, u32, u32)]) -> Vec<u8> {
    let mut w = W::new();
    w.full(version, flags).u32(sample_count);
    if flags & TRUN_OFFSET != 0 {
        w.i32(data_offset.unwrap_or(0));
    }
    if flags & TRUN_FIRST_FLAGS != 0 {
        w.u32(first_flags.unwrap_or(0));
    }
    for s in samples {
        if flags & TRUN_DUR != 0 {
            w.u32(s.0);
        }
        if flags & TRUN_SIZE != 0 {
            w.u32(s.1);
        }
        if flags & TRUN_FLAGS != 0 {
            w.u32(s.2);
        }
        if flags & TRUN_CTS != 0 {
            w.u32(s.3);
        }
    }
    w.done()
}

#[allow(clippy::too_many_arguments)]
pub fn enc_emsg(version: u8, flags: u32, timescale: u32, ptime: u64, pdelta: u32, event_duration: u32, id: u32, scheme: &str, value: &str, data: &[u8]) -> Vec<u8> {
    let mut w = W::new();
    w.full(version, flags);
    if version == 0 {
        w.cstr(scheme).cstr(value).u32(timescale).u32(pdelta).u32(event_duration).u32(id);
    } else {
        w.u32(timescale).u64(ptime).u32(event_duration).u32(id).cstr(scheme).cstr(value);
    }
    w.bytes(data);
    w.done()
}

/// iTunes 'data' atom payload: type indicator (1 byte set 0 + 24-bit well-known type), 4-byte locale
pub fn enc_data(type_code: u32, locale: u32, payload: &[u8]) -> Vec<u8> {
    let mut w = W::new();
    w.u32(type_code).u32(locale).bytes(payload);
    w.done()
}

pub fn node_ilst_item(typ: Cc, type_code: u32, payload: &[u8]) -> Node {
    Node { typ, large: false, parts: vec![Part::Child(Node::leaf("data", enc_data(type_code, 0, payload)))], spare: vec![], tag: 0 }
}

/// deterministic non-zero payload byte j of sample k (0-based) of track t
#[inline]
pub fn pat(t: u32, k: u32, j: u32) -> u8 {
    let x = t.wrapping_mul(131).wrapping_add(k.wrapping_mul(31)).wrapping_add(j.wrapping_mul(7)).wrapping_add(1);
    (x % 255 + 1) as u8
}

/// Payload of sample k of track t. Mostly the non-zero pattern; about one sample in three has
/// content that a codec-aware or structure-sniffing writer/reader might be tempted to touch:
/// an Annex B start code in front, all zero bytes, all 0xFF, the first bytes of a box header, or an
/// ADTS frame header.
/// The library must treat sample data as opaque.
pub fn sample_bytes(t: u32, k: u32, len: u32) -> Vec<u8> {
    let mut v: Vec<u8> = (0..len).map(|j| pat(t, k, j)).collect();
    let prefix: &[u8] = match t.wrapping_mul(31).wrapping_add(k.wrapping_mul(17)) % 23 {
        0 => &[0, 0, 0, 1],
        1 => &[0, 0, 1],
        2 => {
            v.iter_mut().for_each(|b| *b = 0);
            &[]
        }
        3 => {
            v.iter_mut().for_each(|b| *b = 0xff);
            &[]
        }
        4 => &[0, 0, 0, 16, b'm', b'o', b'o', b'f'],
        5 => &[0, 0, 0, 2, 0x09, 0x10],
        // ADTS sync word with a frame-length field of 0, and one with a plausible length + CRC flag
        6 => &[0xff, 0xf1, 0x50, 0x80, 0x00, 0x1f, 0xfc],
        7 => &[0xff, 0xf0, 0x50, 0x80, 0x01, 0x1f, 0xfc, 0xde, 0xad],
        8 => &[0xff, 0xf9, 0, 0, 0, 0, 0, 0, 0],
        _ => &[],
    };
    let n = prefix.len().min(v.len());
    v[..n].copy_from_slice(&prefix[..n]);
    // one of the first two samples of a track in three is exactly one well-formed ADTS frame (sync
    // word, layer 0, no CRC, 13-bit frame length equal to the sample size) announcing an object
    // type, sampling frequency and channel configuration of its own - what a caller feeding .aac
    // frames produces; to the container it is payload like any other
    if k < 2 && (7..8192).contains(&len) && t.wrapping_add(len) % 3 == 0 {
        let (profile, freq, chan) = ((len % 4) as u8, ((len / 4) % 13) as u8, 1 + ((len / 64) % 7) as u8);
        let hdr = [0xff, 0xf1, (profile << 6) | (freq << 2) | (chan >> 2), ((chan & 3) << 6) | ((len >> 11) & 3) as u8, ((len >> 3) & 0xff) as u8, (((len & 7) as u8) << 5) | 0x1f, 0xfc];
        v[..7].copy_from_slice(&hdr);
    }
    v
}
