//! Independent parser: generic box walker (32/64-bit headers, exact tiling), sample-table and
//! header decoders for the boxes the muxer emits, and a field map (positions of every
//! size/count/length/offset/version/flag field) used by the adversarial mutator.

use super::*;

#[derive(Clone, Debug)]
pub struct PBox {
    pub typ: Cc,
    pub start: usize,
    pub header: usize,
    pub size: usize,
    /// bytes of non-box prefix inside the payload before children start (containers with a prefix)
    pub prefix: usize,
    pub children: Vec<PBox>,
    pub depth: usize,
}

impl PBox {
    pub fn payload<'a>(&self, b: &'a [u8]) -> &'a [u8] {
        &b[self.start + self.header..self.start + self.size]
    }
    pub fn end(&self) -> usize {
        self.start + self.size
    }
    pub fn child(&self, t: &str) -> Option<&PBox> {
        let c = cc(t);
        self.children.iter().find(|x| x.typ == c)
    }
    pub fn all<'a>(&'a self, t: &str) -> Vec<&'a PBox> {
        let c = cc(t);
        self.children.iter().filter(|x| x.typ == c).collect()
    }
    pub fn name(&self) -> String {
        String::from_utf8_lossy(&self.typ).to_string()
    }
}

/// how many prefix bytes precede the children of a container type; None = leaf
pub fn container_prefix(typ: &Cc, payload: &[u8]) -> Option<usize> {
    match &typ[..] {
        b"moov" | b"trak" | b"mdia" | b"minf" | b"dinf" | b"stbl" | b"edts" | b"mvex" | b"moof" | b"traf" | b"udta" | b"ilst" => Some(0),
        b"dref" | b"stsd" => Some(8),
        b"avc1" | b"hev1" | b"vp09" | b"hvc1" | b"avc3" => Some(78),
        b"mp4a" => Some(28),
        b"meta" => {
            // ISO: FullBox; QuickTime: children start immediately (second word is 'hdlr')
            if payload.len() >= 8 && &payload[4..8] == b"hdlr" {
                Some(0)
            } else {
                Some(4)
            }
        }
        // ilst items: any box directly inside ilst is a container of atoms
        _ => None,
    }
}

pub fn read_header(b: &[u8], at: usize) -> Result<(Cc, usize, usize), String> {
    if at + 8 > b.len() {
        return Err(format!("box header at {} truncated", at));
    }
    let size32 = u32::from_be_bytes([b[at], b[at + 1], b[at + 2], b[at + 3]]) as usize;
    let typ = [b[at + 4], b[at + 5], b[at + 6], b[at + 7]];
    if size32 == 1 {
        if at + 16 > b.len() {
            return Err(format!("largesize at {} truncated", at));
        }
        let mut x = [0u8; 8];
        x.copy_from_slice(&b[at + 8..at + 16]);
        let s = u64::from_be_bytes(x);
        if s < 16 {
            return Err(format!("largesize {} < 16 at {}", s, at));
        }
        Ok((typ, 16, s as usize))
    } else if size32 == 0 {
        Ok((typ, 8, b.len() - at))
    } else if size32 < 8 {
        Err(format!("box size {} < 8 at {}", size32, at))
    } else {
        Ok((typ, 8, size32))
    }
}

fn walk_range(b: &[u8], mut at: usize, end: usize, depth: usize, in_ilst: bool, strict: bool) -> Result<Vec<PBox>, String> {
    let mut out = Vec::new();
    while at < end {
        let (typ, header, size) = read_header(b, at)?;
        if at + size > end {
            return Err(format!("box {} at {} (size {}) overruns its parent (end {})", String::from_utf8_lossy(&typ), at, size, end));
        }
        let payload = &b[at + header..at + size];
        let prefix = if in_ilst { Some(0) } else { container_prefix(&typ, payload) };
        let mut pb = PBox { typ, start: at, header, size, prefix: prefix.unwrap_or(0), children: vec![], depth };
        if let Some(p) = prefix {
            if p <= payload.len() {
                match walk_range(b, at + header + p, at + size, depth + 1, typ == cc("ilst"), strict) {
                    Ok(ch) => pb.children = ch,
                    Err(e) => {
                        if strict {
                            return Err(e);
                        }
                    }
                }
            } else if strict {
                return Err(format!("container {} at {} shorter than its prefix", pb.name(), at));
            }
        }
        out.push(pb);
        at += size;
    }
    if at != end && strict {
        return Err(format!("children do not tile parent: ended at {} expected {}", at, end));
    }
    Ok(out)
}

/// strict: every container's children tile it exactly; errors are returned.
pub fn walk(b: &[u8]) -> Result<Vec<PBox>, String> {
    walk_range(b, 0, b.len(), 0, false, true)
}

/// lenient walk for field maps of possibly odd (canned) files: stops descending on trouble
pub fn walk_lenient(b: &[u8]) -> Vec<PBox> {
    walk_range(b, 0, b.len(), 0, false, false).unwrap_or_default()
}

pub struct R<'a> {
    pub b: &'a [u8],
    pub p: usize,
}
impl<'a> R<'a> {
    pub fn new(b: &'a [u8]) -> Self {
        R { b, p: 0 }
    }
    pub fn left(&self) -> usize {
        self.b.len().saturating_sub(self.p)
    }
    pub fn u8(&mut self) -> Result<u8, String> {
        if self.p + 1 > self.b.len() {
            return Err("short".into());
        }
        let v = self.b[self.p];
        self.p += 1;
        Ok(v)
    }
    pub fn u16(&mut self) -> Result<u16, String> {
        if self.p + 2 > self.b.len() {
            return Err("short".into());
        }
        let v = u16::from_be_bytes([self.b[self.p], self.b[self.p + 1]]);
        self.p += 2;
        Ok(v)
    }
    pub fn u24(&mut self) -> Result<u32, String> {
        if self.p + 3 > self.b.len() {
            return Err("short".into());
        }
        let v = u32::from_be_bytes([0, self.b[self.p], self.b[self.p + 1], self.b[self.p + 2]]);
        self.p += 3;
        Ok(v)
    }
    pub fn u32(&mut self) -> Result<u32, String> {
        if self.p + 4 > self.b.len() {
            return Err("short".into());
        }
        let v = u32::from_be_bytes([self.b[self.p], self.b[self.p + 1], self.b[self.p + 2], self.b[self.p + 3]]);
        self.p += 4;
        Ok(v)
    }
    pub fn u64(&mut self) -> Result<u64, String> {
        if self.p + 8 > self.b.len() {
            return Err("short".into());
        }
        let mut x = [0u8; 8];
        x.copy_from_slice(&self.b[self.p..self.p + 8]);
        self.p += 8;
        Ok(u64::from_be_bytes(x))
    }
    pub fn skip(&mut self, n: usize) -> Result<(), String> {
        if self.p + n > self.b.len() {
            return Err("short".into());
        }
        self.p += n;
        Ok(())
    }
    pub fn bytes(&mut self, n: usize) -> Result<&'a [u8], String> {
        if self.p + n > self.b.len() {
            return Err("short".into());
        }
        let s = &self.b[self.p..self.p + n];
        self.p += n;
        Ok(s)
    }
}

#[derive(Debug, Clone, Default)]
pub struct PFtyp {
    pub major: Cc,
    pub minor: u32,
    pub compat: Vec<Cc>,
}

pub fn dec_ftyp(p: &[u8]) -> Result<PFtyp, String> {
    let mut r = R::new(p);
    let major = r.bytes(4)?;
    let minor = r.u32()?;
    if r.left() % 4 != 0 {
        return Err("ftyp brands not multiple of 4".into());
    }
    let mut compat = Vec::new();
    while r.left() > 0 {
        let c = r.bytes(4)?;
        compat.push([c[0], c[1], c[2], c[3]]);
    }
    Ok(PFtyp { major: [major[0], major[1], major[2], major[3]], minor, compat })
}

#[derive(Debug, Clone, Default)]
pub struct PHead {
    pub version: u8,
    pub flags: u32,
    pub timescale: u32,
    pub duration: u64,
    pub track_id: u32,
    pub width: u32,
    pub height: u32,
    pub lang: [u8; 3],
    pub exact_len: bool,
}

pub fn dec_mvhd(p: &[u8]) -> Result<PHead, String> {
    let mut r = R::new(p);
    let version = r.u8()?;
    let flags = r.u24()?;
    let (timescale, duration) = match version {
        0 => {
            r.skip(8)?;
            (r.u32()?, r.u32()? as u64)
        }
        1 => {
            r.skip(16)?;
            (r.u32()?, r.u64()?)
        }
        v => return Err(format!("mvhd version {}", v)),
    };
    r.skip(4 + 2 + 2 + 8 + 36 + 24 + 4)?;
    Ok(PHead { version, flags, timescale, duration, exact_len: r.left() == 0, ..Default::default() })
}

pub fn dec_tkhd(p: &[u8]) -> Result<PHead, String> {
    let mut r = R::new(p);
    let version = r.u8()?;
    let flags = r.u24()?;
    let (track_id, duration) = match version {
        0 => {
            r.skip(8)?;
            let id = r.u32()?;
            r.skip(4)?;
            (id, r.u32()? as u64)
        }
        1 => {
            r.skip(16)?;
            let id = r.u32()?;
            r.skip(4)?;
            (id, r.u64()?)
        }
        v => return Err(format!("tkhd version {}", v)),
    };
    r.skip(8 + 2 + 2 + 2 + 2 + 36)?;
    let width = r.u32()?;
    let height = r.u32()?;
    Ok(PHead { version, flags, track_id, duration, width, height, exact_len: r.left() == 0, ..Default::default() })
}

pub fn dec_mdhd(p: &[u8]) -> Result<PHead, String> {
    let mut r = R::new(p);
    let version = r.u8()?;
    let flags = r.u24()?;
    let (timescale, duration) = match version {
        0 => {
            r.skip(8)?;
            (r.u32()?, r.u32()? as u64)
        }
        1 => {
            r.skip(16)?;
            (r.u32()?, r.u64()?)
        }
        v => return Err(format!("mdhd version {}", v)),
    };
    let lang = unpack_lang(r.u16()?);
    r.skip(2)?;
    Ok(PHead { version, flags, timescale, duration, lang, exact_len: r.left() == 0, ..Default::default() })
}

pub fn dec_hdlr_type(p: &[u8]) -> Result<Cc, String> {
    let mut r = R::new(p);
    r.skip(8)?;
    let h = r.bytes(4)?;
    Ok([h[0], h[1], h[2], h[3]])
}

fn table_header(p: &[u8]) -> Result<(R<'_>, u32), String> {
    let mut r = R::new(p);
    r.skip(4)?;
    let n = r.u32()?;
    Ok((r, n))
}

pub fn dec_stts(p: &[u8]) -> Result<Vec<(u32, u32)>, String> {
    let (mut r, n) = table_header(p)?;
    if r.left() != n as usize * 8 {
        return Err(format!("stts: {} entries do not fill {} bytes", n, r.left()));
    }
    (0..n).map(|_| Ok((r.u32()?, r.u32()?))).collect()
}

pub fn dec_ctts(p: &[u8]) -> Result<Vec<(u32, i32)>, String> {
    let (mut r, n) = table_header(p)?;
    if r.left() != n as usize * 8 {
        return Err(format!("ctts: {} entries do not fill {} bytes", n, r.left()));
    }
    (0..n).map(|_| Ok((r.u32()?, r.u32()? as i32))).collect()
}

pub fn dec_stss(p: &[u8]) -> Result<Vec<u32>, String> {
    let (mut r, n) = table_header(p)?;
    if r.left() != n as usize * 4 {
        return Err(format!("stss: {} entries do not fill {} bytes", n, r.left()));
    }
    (0..n).map(|_| r.u32()).collect()
}

pub fn dec_stsc(p: &[u8]) -> Result<Vec<(u32, u32, u32)>, String> {
    let (mut r, n) = table_header(p)?;
    if r.left() != n as usize * 12 {
        return Err(format!("stsc: {} entries do not fill {} bytes", n, r.left()));
    }
    (0..n).map(|_| Ok((r.u32()?, r.u32()?, r.u32()?))).collect()
}

/// (constant size, count, table)
pub fn dec_stsz(p: &[u8]) -> Result<(u32, u32, Vec<u32>), String> {
    let mut r = R::new(p);
    r.skip(4)?;
    let size = r.u32()?;
    let n = r.u32()?;
    if size == 0 {
        if r.left() != n as usize * 4 {
            return Err(format!("stsz: {} entries do not fill {} bytes", n, r.left()));
        }
        let t: Result<Vec<u32>, String> = (0..n).map(|_| r.u32()).collect();
        Ok((0, n, t?))
    } else {
        if r.left() != 0 {
            return Err("stsz: constant-size form with trailing table".into());
        }
        Ok((size, n, vec![]))
    }
}

pub fn dec_stco(p: &[u8]) -> Result<Vec<u64>, String> {
    let (mut r, n) = table_header(p)?;
    if r.left() != n as usize * 4 {
        return Err(format!("stco: {} entries do not fill {} bytes", n, r.left()));
    }
    (0..n).map(|_| Ok(r.u32()? as u64)).collect()
}

pub fn dec_co64(p: &[u8]) -> Result<Vec<u64>, String> {
    let (mut r, n) = table_header(p)?;
    if r.left() != n as usize * 8 {
        return Err(format!("co64: {} entries do not fill {} bytes", n, r.left()));
    }
    (0..n).map(|_| r.u64()).collect()
}

// ------------------------------------------------------------------------------------------
// Field map
// ------------------------------------------------------------------------------------------

#[derive(Clone, Copy, Debug, PartialEq, Eq, serde::Serialize)]
pub enum FieldKind {
    Size,
    LargeSize,
    Type,
    Version,
    Flags,
    Count,
    Length,
    Offset,
    Time,
    Value,
    Word,
}

#[derive(Clone, Debug, serde::Serialize)]
pub struct Field {
    pub off: usize,
    pub width: usize,
    pub kind: FieldKind,
    pub boxtype: Cc,
    pub depth: usize,
    /// end of the enclosing box / bytes remaining from the field to the end of its box
    pub box_end: usize,
}

fn is_fullbox(t: &Cc) -> bool {
    matches!(
        &t[..],
        b"mvhd" | b"tkhd" | b"mdhd" | b"hdlr" | b"vmhd" | b"smhd" | b"dref" | b"url " | b"stsd" | b"stts" | b"ctts" | b"stss" | b"stsc" | b"stsz" | b"stco" | b"co64" | b"elst" | b"mehd" | b"trex" | b"mfhd" | b"tfhd" | b"tfdt" | b"trun" | b"emsg" | b"esds" | b"vpcC" | b"meta"
    )
}

pub fn field_map(b: &[u8], boxes: &[PBox], out: &mut Vec<Field>) {
    for pb in boxes {
        let mk = |off: usize, width: usize, kind: FieldKind| Field { off, width, kind, boxtype: pb.typ, depth: pb.depth, box_end: pb.end() };
        out.push(mk(pb.start, 4, FieldKind::Size));
        out.push(mk(pb.start + 4, 4, FieldKind::Type));
        if pb.header == 16 {
            out.push(mk(pb.start + 8, 8, FieldKind::LargeSize));
        }
        let p0 = pb.start + pb.header;
        let plen = pb.size - pb.header;
        let mut push = |rel: usize, width: usize, kind: FieldKind| {
            if rel + width <= plen {
                out.push(Field { off: p0 + rel, width, kind, boxtype: pb.typ, depth: pb.depth, box_end: pb.end() });
            }
        };
        let full = is_fullbox(&pb.typ) && !(pb.typ == cc("meta") && pb.prefix == 0);
        let version = if full && plen > 0 { b[p0] } else { 0 };
        if full {
            push(0, 1, FieldKind::Version);
            push(1, 3, FieldKind::Flags);
        }
        match &pb.typ[..] {
            b"mvhd" | b"mdhd" => {
                if version == 1 {
                    push(4, 8, FieldKind::Time);
                    push(12, 8, FieldKind::Time);
                    push(20, 4, FieldKind::Value);
                    push(24, 8, FieldKind::Time);
                    push(32, 2, FieldKind::Value);
                } else {
                    push(4, 4, FieldKind::Time);
                    push(8, 4, FieldKind::Time);
                    push(12, 4, FieldKind::Value);
                    push(16, 4, FieldKind::Time);
                    push(20, 2, FieldKind::Value);
                }
            }
            b"tkhd" => {
                if version == 1 {
                    push(20, 4, FieldKind::Value);
                    push(28, 8, FieldKind::Time);
                } else {
                    push(12, 4, FieldKind::Value);
                    push(20, 4, FieldKind::Time);
                }
            }
            b"hdlr" => {
                push(8, 4, FieldKind::Type);
            }
            b"dref" | b"stsd" | b"stts" | b"ctts" | b"stss" | b"stsc" | b"stco" | b"co64" | b"elst" => {
                push(4, 4, FieldKind::Count);
                // first two entries' words
                for k in 0..6 {
                    push(8 + 4 * k, 4, FieldKind::Value);
                }
                if &pb.typ[..] == b"co64" {
                    push(8, 8, FieldKind::Offset);
                }
                if &pb.typ[..] == b"stco" {
                    push(8, 4, FieldKind::Offset);
                }
            }
            b"stsz" => {
                push(4, 4, FieldKind::Length);
                push(8, 4, FieldKind::Count);
                push(12, 4, FieldKind::Length);
                push(16, 4, FieldKind::Length);
            }
            b"avcC" => {
                push(4, 1, FieldKind::Value);
                push(5, 1, FieldKind::Count);
                push(6, 2, FieldKind::Length);
            }
            b"hvcC" => {
                push(22, 1, FieldKind::Count);
                push(24, 2, FieldKind::Count);
                push(26, 2, FieldKind::Length);
            }
            b"esds" => {
                for k in 4..plen.min(40) {
                    push(k, 1, FieldKind::Length);
                }
            }
            b"mehd" | b"tfdt" => {
                push(4, if version == 1 { 8 } else { 4 }, FieldKind::Time);
            }
            b"trex" => {
                for k in 0..5 {
                    push(4 + 4 * k, 4, FieldKind::Value);
                }
            }
            b"mfhd" => push(4, 4, FieldKind::Value),
            b"tfhd" => {
                push(4, 4, FieldKind::Value);
                push(8, 8, FieldKind::Offset);
                for k in 0..5 {
                    push(8 + 4 * k, 4, FieldKind::Value);
                }
            }
            b"trun" => {
                push(4, 4, FieldKind::Count);
                push(8, 4, FieldKind::Offset);
                for k in 0..6 {
                    push(12 + 4 * k, 4, FieldKind::Length);
                }
            }
            b"emsg" => {
                for k in (4..plen.min(48)).step_by(4) {
                    push(k, 4, FieldKind::Value);
                }
            }
            b"data" => {
                push(0, 4, FieldKind::Value);
                push(4, 4, FieldKind::Value);
            }
            b"avc1" | b"hev1" | b"vp09" => {
                push(24, 2, FieldKind::Value);
                push(26, 2, FieldKind::Value);
            }
            b"mp4a" => {
                push(8, 2, FieldKind::Version);
                push(16, 2, FieldKind::Value);
                push(24, 4, FieldKind::Value);
            }
            _ => {}
        }
        field_map(b, &pb.children, out);
    }
}

/// every aligned 32-bit word inside the payload of leaf boxes below moov/moof (canned files)
pub fn word_fields(b: &[u8], boxes: &[PBox], inside: bool, out: &mut Vec<Field>) {
    for pb in boxes {
        let here = inside || pb.typ == cc("moov") || pb.typ == cc("moof");
        if pb.children.is_empty() {
            if here && pb.typ != cc("mdat") {
                let p0 = pb.start + pb.header;
                let mut k = p0;
                while k + 4 <= pb.end() && k + 4 <= b.len() {
                    out.push(Field { off: k, width: 4, kind: FieldKind::Word, boxtype: pb.typ, depth: pb.depth, box_end: pb.end() });
                    k += 4;
                }
            }
        } else {
            word_fields(b, &pb.children, here, out);
        }
    }
}

/// Canonical rendering for order-insensitive comparison: children of containers whose child order
/// carries no meaning in ISO/IEC 14496-12 are sorted (recursively) by their canonical bytes.
pub fn canonical(b: &[u8]) -> Vec<u8> {
    fn canon_box(b: &[u8], pb: &PBox) -> Vec<u8> {
        let order_free = matches!(&pb.typ[..], b"moov" | b"trak" | b"mdia" | b"minf" | b"stbl" | b"traf" | b"moof" | b"mvex" | b"udta" | b"edts" | b"dinf" | b"ilst") ;
        let mut out = b[pb.start..pb.start + pb.header + pb.prefix.min(pb.size - pb.header)].to_vec();
        if pb.children.is_empty() {
            return b[pb.start..pb.end()].to_vec();
        }
        let mut kids: Vec<Vec<u8>> = pb.children.iter().map(|c| canon_box(b, c)).collect();
        if order_free {
            kids.sort();
        }
        for k in kids {
            out.extend(k);
        }
        // trailing bytes after the last child (none in strict walks)
        let last_end = pb.children.last().map(|c| c.end()).unwrap_or(pb.end());
        out.extend_from_slice(&b[last_end..pb.end()]);
        out
    }
    let top = walk_lenient(b);
    let mut out = Vec::new();
    for pb in &top {
        out.extend(canon_box(b, pb));
    }
    if top.is_empty() {
        return b.to_vec();
    }
    out
}
