//! Logical movie -> physical file, with ground truth. No `mp4` imports.

use super::*;
use serde::{Deserialize, Serialize};

#[derive(Clone, Debug, Serialize, Deserialize, PartialEq, Eq)]
pub enum Codec {
    Avc { width: u16, height: u16, sps: Vec<u8>, pps: Vec<u8> },
    Hevc { width: u16, height: u16 },
    Vp9 { width: u16, height: u16 },
    Aac { object_type: u8, freq_index: u8, chan: u8, bitrate: u32 },
    Ttxt,
}

impl Codec {
    pub fn handler(&self) -> Cc {
        match self {
            Codec::Avc { .. } | Codec::Hevc { .. } | Codec::Vp9 { .. } => cc("vide"),
            Codec::Aac { .. } => cc("soun"),
            Codec::Ttxt => cc("sbtl"),
        }
    }
    pub fn dims(&self) -> (u16, u16) {
        match self {
            Codec::Avc { width, height, .. } | Codec::Hevc { width, height } | Codec::Vp9 { width, height } => (*width, *height),
            _ => (0, 0),
        }
    }
    pub fn entry_type(&self) -> &'static str {
        match self {
            Codec::Avc { .. } => "avc1",
            Codec::Hevc { .. } => "hev1",
            Codec::Vp9 { .. } => "vp09",
            Codec::Aac { .. } => "mp4a",
            Codec::Ttxt => "tx3g",
        }
    }
}

pub const FREQS: [u32; 13] = [96000, 88200, 64000, 48000, 44100, 32000, 24000, 22050, 16000, 12000, 11025, 8000, 7350];

#[derive(Clone, Copy, Debug, Serialize, Deserialize, PartialEq, Eq)]
pub struct Sample {
    pub size: u32,
    pub dur: u32,
    pub cts: i32,
    pub sync: bool,
}

#[derive(Clone, Debug, Serialize, Deserialize, PartialEq, Eq)]
pub struct Track {
    pub id: u32,
    pub codec: Codec,
    pub timescale: u32,
    pub lang: [u8; 3],
    /// samples described by the sample tables in moov (empty for purely fragmented tracks)
    pub samples: Vec<Sample>,
    /// composition of samples.len() into chunks (each >= 1)
    pub chunks: Vec<u32>,
    /// stsc_breaks[i]: start a new sample-to-chunk entry at chunk i even when samples-per-chunk
    /// is unchanged (non-minimal run-length grouping). Index 0 is ignored (always starts a run).
    pub stsc_breaks: Vec<bool>,
    pub co64: bool,
    /// use the constant-size stsz form when legal (all sizes equal and non-zero)
    pub fixed_stsz: bool,
    /// per sample: force a new stts run
    pub stts_breaks: Vec<bool>,
    pub has_ctts: bool,
    pub ctts_breaks: Vec<bool>,
    pub has_stss: bool,
    /// movie-level fragment defaults (trex); trex is emitted when the movie has fragments
    pub trex_dur: u32,
    pub trex_size: u32,
    pub trex_flags: u32,
    /// edit list (segment_duration, media_time) entries; None = no edts
    pub elst: Option<Vec<(u64, u64)>>,
}

#[derive(Clone, Copy, Debug, Serialize, Deserialize, PartialEq, Eq)]
pub enum BaseMode {
    Explicit,
    DefaultBaseIsMoof,
    Neither,
}

#[derive(Clone, Debug, Serialize, Deserialize, PartialEq, Eq)]
pub struct Traf {
    /// index into Movie.tracks
    pub track: usize,
    pub base: BaseMode,
    /// (version, base media decode time)
    pub tfdt: Option<(u8, u64)>,
    pub tfhd_dur: Option<u32>,
    pub tfhd_size: Option<u32>,
    pub tfhd_flags: Option<u32>,
    pub tfhd_sdi: Option<u32>,
    pub trun_dur: bool,
    pub trun_cts: bool,
    pub trun_flags: bool,
    pub trun_first_flags: Option<u32>,
    pub trun_version: u8,
    /// bytes of filler placed in the mdat before this run's data (data_offset skips them)
    pub lead: u8,
    pub samples: Vec<Sample>,
    /// false: the traf has no trun at all (tfhd carries duration-is-empty); it contributes no samples
    #[serde(default = "yes")]
    pub has_trun: bool,
    /// false: no per-sample sizes in the trun (sizes come from the tfhd/trex default; outside C09's
    /// domain, used for robustness inputs)
    #[serde(default = "yes")]
    pub trun_size: bool,
}

fn yes() -> bool {
    true
}

#[derive(Clone, Debug, Serialize, Deserialize, PartialEq, Eq)]
pub struct Fragment {
    pub seq: u32,
    /// mdat placed before its moof (negative data offsets)
    pub mdat_first: bool,
    pub trafs: Vec<Traf>,
}

#[derive(Clone, Debug, Serialize, Deserialize, PartialEq, Eq)]
pub struct MetaItem {
    pub typ: Cc,
    pub type_code: u32,
    pub payload: Vec<u8>,
    /// unknown children placed before / after the data atom inside the item
    pub pre: Vec<(Cc, Vec<u8>)>,
    pub post: Vec<(Cc, Vec<u8>)>,
    /// second word of the data atom: the locale indicator (country / language), 0 in most files
    #[serde(default)]
    pub locale: u32,
}

#[derive(Clone, Debug, Serialize, Deserialize, PartialEq, Eq)]
pub struct Meta {
    pub handler: Cc,
    /// QuickTime style: no version/flags word, hdlr first
    pub quicktime: bool,
    /// None: meta without ilst
    pub items: Option<Vec<MetaItem>>,
    /// place hdlr after ilst (ISO style only)
    pub hdlr_last: bool,
    /// unknown siblings of meta inside udta
    pub udta_extra: Vec<(Cc, Vec<u8>)>,
    /// 0 = compact headers everywhere; otherwise each box of the udta subtree independently gets
    /// the 64-bit size header with probability 1/3 (deterministic in the seed)
    #[serde(default)]
    pub large_seed: u64,
    /// name of the meta box's hdlr
    #[serde(default)]
    pub hdlr_name: String,
}

/// decides, per box of the udta subtree, whether it uses the 64-bit size header
pub struct LargePick {
    x: u64,
}

impl LargePick {
    pub fn new(seed: u64) -> Self {
        LargePick { x: seed }
    }
    pub fn next(&mut self) -> bool {
        if self.x == 0 {
            return false;
        }
        self.x = crate::engine::splitmix(self.x) | 1;
        (self.x >> 17) % 3 == 0
    }
    fn mark(&mut self, mut n: Node) -> Node {
        n.large = self.next();
        n
    }
}

#[derive(Clone, Debug, Serialize, Deserialize, PartialEq, Eq)]
pub enum Xform {
    /// insert a box of `typ` with `len` payload bytes as child number `pos` of the node at `path`
    /// (empty path = top level)
    Insert { path: Vec<usize>, pos: usize, typ: Cc, len: u16, #[serde(default)] large: bool },
    Large { path: Vec<usize> },
    Spare { path: Vec<usize>, n: u8 },
    Swap { path: Vec<usize>, i: usize, j: usize },
}

#[derive(Clone, Debug, Serialize, Deserialize, PartialEq, Eq)]
pub struct Movie {
    pub major: Cc,
    pub minor: u32,
    pub compat: Vec<Cc>,
    pub timescale: u32,
    pub tracks: Vec<Track>,
    pub frags: Vec<Fragment>,
    /// udta/meta in moov (None = no udta)
    pub meta: Option<Meta>,
    /// mdat before moov
    pub mdat_first: bool,
    /// 0 = chunks laid out track by track; otherwise a deterministic interleaving
    pub interleave: u64,
    /// filler bytes between chunks
    pub gap: u8,
    /// emit an mvex/mehd
    pub mehd: Option<(u8, u64)>,
    /// emit an emsg box (version) before the first moof / at the end
    pub emsg: Option<u8>,
    pub xforms: Vec<Xform>,
    /// every moof (and its mdat) uses the 64-bit size header form
    #[serde(default)]
    pub large_moof: bool,
    /// when the last top-level box of the single-stream file is an mdat with a compact header, its
    /// size field is written as 0 ("extends to the end of the file", ISO/IEC 14496-12 4.2)
    #[serde(default)]
    pub last_to_eof: bool,
    /// name written into every track's hdlr box (None: "ref")
    #[serde(default)]
    pub hdlr_name: Option<String>,
    /// a meta box placed directly in moov (not user data), before (true) or after (false) udta
    #[serde(default)]
    pub moov_meta: Option<(Meta, bool)>,
    /// media duration written into the mdhd of tracks that have no table samples (fragmented
    /// tracks): some muxers write 0 there, some the duration of the whole presentation
    #[serde(default)]
    pub frag_mdhd_dur: u32,
    /// physical size beyond 4 GiB: a top-level `free` box with a 64-bit header and that many payload
    /// bytes, placed after ftyp (0), after the second top-level box (1) or at the end (2). The
    /// payload is not materialised (`Built::gap`, field `huge`); chunk offsets then always use co64.
    #[serde(default)]
    pub huge: Option<(u8, u64)>,
    /// constant sample_size written into the (empty, sample_count 0) stsz of tracks without table
    /// samples, as init segments of constant-frame-size streams carry it
    #[serde(default)]
    pub frag_stsz_size: u32,
    /// tracks without an edit list get a header-only (8-byte) edts box
    #[serde(default)]
    pub empty_edts: bool,
    /// (track index, chunk index): that chunk's offset is 0, i.e. its samples are the first bytes of
    /// the file itself (legal; ignored together with `huge`)
    #[serde(default)]
    pub zero_chunk: Option<(usize, usize)>,
}

#[derive(Clone, Debug, Serialize, PartialEq, Eq)]
pub struct SampleTruth {
    pub offset: u64,
    pub size: u32,
    pub start: u64,
    pub dur: u32,
    pub cts: i32,
    /// Some for non-fragmented tracks (stss semantics); None where the property does not define it
    pub sync: Option<bool>,
    /// expected payload when it is not the builder's pattern (a chunk placed over other file bytes)
    pub raw: Option<Vec<u8>>,
}

#[derive(Clone, Debug, Serialize, PartialEq, Eq)]
pub struct TrackTruth {
    pub id: u32,
    pub samples: Vec<SampleTruth>,
    pub media_duration: u64,
}

#[derive(Clone, Debug)]
pub struct Built {
    pub bytes: Vec<u8>,
    pub truth: Vec<TrackTruth>,
    /// byte length of the initialisation part (ftyp+moov [+ mdat]) when frags exist and all
    /// fragments come after it: bytes[..init_len] is an init segment, bytes[init_len..] a media segment
    pub init_len: usize,
    /// rendered tree (after transformations)
    pub tree: Vec<Node>,
    /// the fragment part rendered as a stand-alone media segment (positions relative to its own
    /// start, explicit base offsets adjusted); sample offsets in it = truth offset - init_len
    pub segment: Vec<u8>,
    /// (index into `bytes`, length): that many zero bytes belong at that index (Movie::gap)
    pub gap: Option<(usize, u64)>,
}

// ------------------------------------------------------------------------------------------

struct Placement {
    /// absolute offset of every chunk: [track][chunk]
    chunk_off: Vec<Vec<u64>>,
    /// per fragment: absolute moof start, absolute mdat payload start
    frag: Vec<(u64, u64)>,
}

fn chunk_sizes(t: &Track) -> Vec<u64> {
    let mut out = Vec::new();
    let mut k = 0usize;
    for c in &t.chunks {
        let mut s = 0u64;
        for _ in 0..*c {
            s += t.samples[k].size as u64;
            k += 1;
        }
        out.push(s);
    }
    out
}

/// order of (track, chunk) pairs inside the main mdat
pub fn chunk_order(m: &Movie) -> Vec<(usize, usize)> {
    let mut order: Vec<(usize, usize)> = Vec::new();
    for (ti, t) in m.tracks.iter().enumerate() {
        for ci in 0..t.chunks.len() {
            order.push((ti, ci));
        }
    }
    if m.interleave != 0 && order.len() > 1 {
        // deterministic Fisher-Yates driven by splitmix
        let mut x = m.interleave;
        for i in (1..order.len()).rev() {
            x = crate::engine::splitmix(x);
            let j = (x % (i as u64 + 1)) as usize;
            order.swap(i, j);
        }
    }
    order
}

fn lang_ok(l: &[u8; 3]) -> [u8; 3] {
    *l
}

fn runs<T: PartialEq + Copy>(vals: &[T], breaks: &[bool]) -> Vec<(u32, T)> {
    let mut out: Vec<(u32, T)> = Vec::new();
    for (i, v) in vals.iter().enumerate() {
        let force = breaks.get(i).copied().unwrap_or(false);
        match out.last_mut() {
            Some(last) if last.1 == *v && !force => last.0 += 1,
            _ => out.push((1, *v)),
        }
    }
    out
}

pub fn stsc_entries(t: &Track) -> Vec<(u32, u32, u32)> {
    let mut out: Vec<(u32, u32, u32)> = Vec::new();
    for (i, spc) in t.chunks.iter().enumerate() {
        let force = i > 0 && t.stsc_breaks.get(i).copied().unwrap_or(false);
        match out.last() {
            Some(last) if last.1 == *spc && !force => {}
            _ => out.push((i as u32 + 1, *spc, 1)),
        }
    }
    out
}

fn sample_entry(t: &Track) -> Node {
    match &t.codec {
        Codec::Avc { width, height, sps, pps } => {
            let p = |i: usize| sps.get(i).copied().unwrap_or(0);
            let avcc = Node::leaf("avcC", enc_avcc(1, p(1), p(2), p(3), 3, &[sps.clone()], &[pps.clone()]));
            Node::mixed("avc1", enc_visual_entry_std(1, *width, *height, 0x00480000, 0x00480000, 1, 0x18), vec![avcc])
        }
        Codec::Hevc { width, height } => {
            let h = HvcC { configuration_version: 1, ..Default::default() };
            let hvcc = Node::leaf("hvcC", enc_hvcc(&h, true));
            Node::mixed("hev1", enc_visual_entry_std(1, *width, *height, 0x00480000, 0x00480000, 1, 0x18), vec![hvcc])
        }
        Codec::Vp9 { width, height } => {
            let vpcc = Node::leaf("vpcC", enc_vpcc(1, 0, 0, 0x1f, 8, 0, false, 0, 0, 0, 0, &[]));
            Node::mixed("vp09", enc_visual_entry_std(1, *width, *height, 0x00480000, 0x00480000, 1, 0x18), vec![vpcc])
        }
        Codec::Aac { object_type, freq_index, chan, bitrate } => {
            let e = Esds {
                version: 0,
                flags: 0,
                es_id: 1,
                object_type_indication: 0x40,
                stream_type: 5,
                up_stream: false,
                buffer_size_db: 0,
                max_bitrate: *bitrate,
                avg_bitrate: *bitrate,
                asc: enc_asc(*object_type, *freq_index, 0, *chan),
                len_pad: 0,
                priority: 0,
            };
            let rate = FREQS.get(*freq_index as usize).copied().unwrap_or(48000);
            Node::mixed("mp4a", enc_audio_entry(1, *chan as u16, 16, (rate & 0xffff) << 16), vec![Node::leaf("esds", enc_esds(&e))])
        }
        Codec::Ttxt => Node::leaf("tx3g", enc_tx3g(1, 0, 1, -1, [0, 0, 0, 255], [0; 4], &[0, 0, 0, 0, 0, 1, 0, 16, 255, 255, 255, 255])),
    }
}

fn to_movie_ticks(media: u64, movie_ts: u32, track_ts: u32) -> u64 {
    if track_ts == 0 {
        return 0;
    }
    ((media as u128 * movie_ts as u128) / track_ts as u128).min(u64::MAX as u128) as u64
}

fn trak_node(m: &Movie, ti: usize, pl: &Placement) -> Node {
    let t = &m.tracks[ti];
    let media_dur: u64 = if t.samples.is_empty() { m.frag_mdhd_dur as u64 } else { t.samples.iter().map(|s| s.dur as u64).sum() };
    let movie_dur = to_movie_ticks(media_dur, m.timescale, t.timescale);
    let (w, h) = t.codec.dims();
    let v_t = if movie_dur > u32::MAX as u64 { 1 } else { 0 };
    let tkhd = Node::leaf("tkhd", enc_tkhd(v_t, 7, 0, 0, t.id, movie_dur, 0, 0, if t.codec.handler() == cc("soun") { 0x0100 } else { 0 }, &UNITY_MATRIX, (w as u32) << 16, (h as u32) << 16));
    let v_m = if media_dur > u32::MAX as u64 { 1 } else { 0 };
    let mdhd = Node::leaf("mdhd", enc_mdhd(v_m, 0, 0, 0, t.timescale, media_dur, &lang_ok(&t.lang)));
    let hdlr = Node::leaf("hdlr", enc_hdlr(0, 0, t.codec.handler(), m.hdlr_name.as_deref().unwrap_or("ref")));
    let mh = match t.codec.handler() {
        x if x == cc("vide") => Node::leaf("vmhd", enc_vmhd(0, 1, 0, [0; 3])),
        x if x == cc("soun") => Node::leaf("smhd", enc_smhd(0, 0, 0)),
        _ => Node::leaf("nmhd", vec![0, 0, 0, 0]),
    };
    // sample tables
    let mut stsd_prefix = W::new();
    stsd_prefix.full(0, 0).u32(1);
    let stsd = Node::mixed("stsd", stsd_prefix.done(), vec![sample_entry(t)]);
    let durs: Vec<u32> = t.samples.iter().map(|s| s.dur).collect();
    let stts_runs = runs(&durs, &t.stts_breaks);
    let stts = Node::leaf("stts", enc_stts(0, 0, &stts_runs));
    let mut stbl_children = vec![stsd, stts];
    if t.has_ctts {
        let c: Vec<i32> = t.samples.iter().map(|s| s.cts).collect();
        let r = runs(&c, &t.ctts_breaks);
        let version = if c.iter().any(|x| *x < 0) { 1 } else { 0 };
        stbl_children.push(Node::leaf("ctts", enc_ctts(version, 0, &r)));
    }
    if t.has_stss {
        let e: Vec<u32> = t.samples.iter().enumerate().filter(|(_, s)| s.sync).map(|(i, _)| i as u32 + 1).collect();
        stbl_children.push(Node::leaf("stss", enc_stss(0, 0, &e)));
    }
    stbl_children.push(Node::leaf("stsc", enc_stsc(0, 0, &stsc_entries(t))));
    let n = t.samples.len() as u32;
    let all_same = n > 0 && t.samples.iter().all(|s| s.size == t.samples[0].size) && t.samples[0].size > 0;
    if t.fixed_stsz && all_same {
        stbl_children.push(Node::leaf("stsz", enc_stsz(0, 0, t.samples[0].size, n, &[])));
    } else {
        let sizes: Vec<u32> = t.samples.iter().map(|s| s.size).collect();
        stbl_children.push(Node::leaf("stsz", enc_stsz(0, 0, if n == 0 { m.frag_stsz_size } else { 0 }, n, &sizes)));
    }
    let offs = &pl.chunk_off[ti];
    let need64 = offs.iter().any(|o| *o > u32::MAX as u64);
    if t.co64 || need64 {
        stbl_children.push(Node::leaf("co64", enc_co64(0, 0, offs)));
    } else {
        let o32: Vec<u32> = offs.iter().map(|o| *o as u32).collect();
        stbl_children.push(Node::leaf("stco", enc_stco(0, 0, &o32)));
    }
    let stbl = Node::container("stbl", stbl_children);
    let minf = Node::container("minf", vec![mh, node_dinf_default(), stbl]);
    let mdia = Node::container("mdia", vec![mdhd, hdlr, minf]);
    let mut kids = vec![tkhd];
    if let Some(el) = &t.elst {
        let v = if el.iter().any(|e| e.0 > u32::MAX as u64 || e.1 > u32::MAX as u64) { 1 } else { 0 };
        let entries: Vec<(u64, u64, u16, u16)> = el.iter().map(|e| (e.0, e.1, 1, 0)).collect();
        kids.push(Node::container("edts", vec![Node::leaf("elst", enc_elst(v, 0, &entries))]));
    } else if m.empty_edts {
        kids.push(Node::container("edts", vec![]));
    }
    kids.push(mdia);
    Node::container("trak", kids)
}

pub fn meta_node(me: &Meta) -> Node {
    let mut lp = LargePick::new(me.large_seed);
    meta_node_with(me, &mut lp)
}

pub fn meta_node_with(me: &Meta, lp: &mut LargePick) -> Node {
    let hdlr = lp.mark(Node::leaf("hdlr", enc_hdlr(0, 0, me.handler, &me.hdlr_name)));
    let mut kids: Vec<Node> = Vec::new();
    let ilst = me.items.as_ref().map(|items| {
        let mut ch = Vec::new();
        for it in items {
            let mut parts: Vec<Node> = Vec::new();
            for (t, p) in &it.pre {
                parts.push(lp.mark(Node::leaf_cc(*t, p.clone())));
            }
            parts.push(lp.mark(Node::leaf("data", enc_data(it.type_code, it.locale, &it.payload))));
            for (t, p) in &it.post {
                parts.push(lp.mark(Node::leaf_cc(*t, p.clone())));
            }
            ch.push(Node { typ: it.typ, large: lp.next(), parts: parts.into_iter().map(Part::Child).collect(), spare: vec![], tag: 0 });
        }
        lp.mark(Node::container("ilst", ch))
    });
    if me.hdlr_last && !me.quicktime {
        if let Some(i) = ilst {
            kids.push(i);
        }
        kids.push(hdlr);
    } else {
        kids.push(hdlr);
        if let Some(i) = ilst {
            kids.push(i);
        }
    }
    let meta = if me.quicktime { Node::container("meta", kids) } else { Node::mixed("meta", vec![0, 0, 0, 0], kids) };
    lp.mark(meta)
}

fn moov_node(m: &Movie, pl: &Placement) -> Node {
    let mut max_dur = 0u64;
    for t in &m.tracks {
        let media_dur: u64 = t.samples.iter().map(|s| s.dur as u64).sum();
        max_dur = max_dur.max(to_movie_ticks(media_dur, m.timescale, t.timescale));
    }
    let v = if max_dur > u32::MAX as u64 { 1 } else { 0 };
    let next_id = m.tracks.iter().map(|t| t.id).max().unwrap_or(0).wrapping_add(1);
    let mut kids = vec![Node::leaf("mvhd", enc_mvhd(v, 0, 0, 0, m.timescale, max_dur, 0x00010000, 0x0100, &UNITY_MATRIX, next_id))];
    for ti in 0..m.tracks.len() {
        kids.push(trak_node(m, ti, pl));
    }
    if !m.frags.is_empty() || m.mehd.is_some() {
        let mut mv = Vec::new();
        if let Some((ver, d)) = m.mehd {
            mv.push(Node::leaf("mehd", enc_mehd(ver, 0, d)));
        }
        for t in &m.tracks {
            mv.push(Node::leaf("trex", enc_trex(0, 0, t.id, 1, t.trex_dur, t.trex_size, t.trex_flags)));
        }
        kids.push(Node::container("mvex", mv));
    }
    if let Some((mm, true)) = &m.moov_meta {
        kids.push(meta_node(mm));
    }
    if let Some(me) = &m.meta {
        let mut lp = LargePick::new(me.large_seed);
        let mut uk: Vec<Node> = Vec::new();
        for (t, p) in &me.udta_extra {
            uk.push(lp.mark(Node::leaf_cc(*t, p.clone())));
        }
        uk.push(meta_node_with(me, &mut lp));
        kids.push(lp.mark(Node::container("udta", uk)));
    }
    if let Some((mm, false)) = &m.moov_meta {
        kids.push(meta_node(mm));
    }
    Node::container("moov", kids)
}

fn main_mdat(m: &Movie) -> (Node, Vec<Vec<u64>>) {
    // returns the mdat node and, per track/chunk, the offset of the chunk relative to the mdat payload
    let order = chunk_order(m);
    let mut payload: Vec<u8> = Vec::new();
    let mut rel: Vec<Vec<u64>> = m.tracks.iter().map(|t| vec![0; t.chunks.len()]).collect();
    let first_sample: Vec<Vec<u32>> = m
        .tracks
        .iter()
        .map(|t| {
            let mut v = Vec::new();
            let mut k = 0;
            for c in &t.chunks {
                v.push(k);
                k += *c;
            }
            v
        })
        .collect();
    for (n, (ti, ci)) in order.iter().enumerate() {
        if n > 0 || m.gap > 0 {
            for g in 0..m.gap {
                payload.push(0xA0 | (g & 0xf));
            }
        }
        rel[*ti][*ci] = payload.len() as u64;
        let t = &m.tracks[*ti];
        let k0 = first_sample[*ti][*ci];
        for k in k0..k0 + t.chunks[*ci] {
            let s = &t.samples[k as usize];
            payload.extend(sample_bytes(t.id, k, s.size));
        }
    }
    let _ = chunk_sizes;
    (Node::leaf("mdat", payload), rel)
}

fn frag_nodes(m: &Movie, fi: usize, pl: &Placement, first_index: &mut [u32]) -> (Node, Node, Vec<Vec<u64>>) {
    // returns (moof, mdat, per-traf absolute-relative data start inside the mdat payload)
    let f = &m.frags[fi];
    let (moof_pos, mdat_payload_pos) = pl.frag[fi];
    // mdat payload: for each traf: lead filler + samples
    let mut payload: Vec<u8> = Vec::new();
    let mut starts: Vec<u64> = Vec::new();
    // running sample index per track inside this fragment (a track may have several trafs)
    let mut local_index: Vec<u32> = first_index.to_vec();
    for tr in &f.trafs {
        for g in 0..tr.lead {
            payload.push(0xB0 | (g & 0xf));
        }
        starts.push(payload.len() as u64);
        if !tr.has_trun {
            continue;
        }
        let t = &m.tracks[tr.track];
        let k0 = local_index[tr.track];
        for (j, s) in tr.samples.iter().enumerate() {
            payload.extend(sample_bytes(t.id, k0 + j as u32, s.size));
        }
        local_index[tr.track] += tr.samples.len() as u32;
    }
    let mut kids = vec![Node::leaf("mfhd", enc_mfhd(0, 0, f.seq))];
    for (i, tr) in f.trafs.iter().enumerate() {
        let t = &m.tracks[tr.track];
        let data_abs = mdat_payload_pos + starts[i];
        let mut flags = 0u32;
        let mut base = None;
        let base_val: u64 = match tr.base {
            BaseMode::Explicit => {
                flags |= TFHD_BASE;
                // an explicit base somewhere before the data (inside the mdat header area)
                let b = mdat_payload_pos.saturating_sub(8);
                base = Some(b);
                b
            }
            BaseMode::DefaultBaseIsMoof => {
                flags |= TFHD_BASE_IS_MOOF;
                moof_pos
            }
            BaseMode::Neither => moof_pos,
        };
        if !tr.has_trun {
            flags |= TFHD_EMPTY;
        }
        if tr.tfhd_sdi.is_some() {
            flags |= TFHD_SDI;
        }
        if tr.tfhd_dur.is_some() {
            flags |= TFHD_DUR;
        }
        if tr.tfhd_size.is_some() {
            flags |= TFHD_SIZE;
        }
        if tr.tfhd_flags.is_some() {
            flags |= TFHD_FLAGS;
        }
        let tfhd = Node::leaf("tfhd", enc_tfhd(0, flags, t.id, base, tr.tfhd_sdi, tr.tfhd_dur, tr.tfhd_size, tr.tfhd_flags));
        let mut tk = vec![tfhd];
        if let Some((v, time)) = tr.tfdt {
            tk.push(Node::leaf("tfdt", enc_tfdt(v, 0, time)));
        }
        if !tr.has_trun {
            kids.push(Node::container("traf", tk));
            continue;
        }
        let mut tf = TRUN_OFFSET | if tr.trun_size { TRUN_SIZE } else { 0 };
        if tr.trun_dur {
            tf |= TRUN_DUR;
        }
        if tr.trun_cts {
            tf |= TRUN_CTS;
        }
        if tr.trun_flags {
            tf |= TRUN_FLAGS;
        }
        if tr.trun_first_flags.is_some() {
            tf |= TRUN_FIRST_FLAGS;
        }
        let data_offset = (data_abs as i128 - base_val as i128) as i32;
        let per: Vec<(u32, u32, u32, u32)> = tr.samples.iter().map(|s| (s.dur, s.size, if s.sync { 0x02000000 } else { 0x01010000 }, s.cts as u32)).collect();
        tk.push(Node::leaf("trun", enc_trun(tr.trun_version, tf, tr.samples.len() as u32, Some(data_offset), tr.trun_first_flags, &per)));
        kids.push(Node::container("traf", tk));
        first_index[tr.track] += tr.samples.len() as u32;
    }
    let rel = vec![starts];
    (Node::container("moof", kids), Node::leaf("mdat", payload), rel)
}

fn emsg_node(version: u8) -> Node {
    Node::leaf("emsg", enc_emsg(version, 0, 1000, 12345, 7, 500, 9, "urn:ref:scheme", "v", &[1, 2, 3, 4, 5]))
}

/// Build the top-level node list for a given placement.
fn make_tree(m: &Movie, pl: &Placement) -> (Vec<Node>, usize) {
    let mut top = vec![Node::leaf("ftyp", enc_ftyp(m.major, m.minor, &m.compat))];
    let (mdat, _) = main_mdat(m);
    let moov = moov_node(m, pl);
    let has_main_mdat = m.tracks.iter().any(|t| !t.chunks.is_empty()) || m.frags.is_empty();
    if m.mdat_first && has_main_mdat {
        top.push(mdat);
        top.push(moov);
    } else {
        top.push(moov);
        if has_main_mdat {
            top.push(mdat);
        }
    }
    let init_nodes = top.len();
    let mut first_index: Vec<u32> = m.tracks.iter().map(|t| t.samples.len() as u32).collect();
    for fi in 0..m.frags.len() {
        if fi == 0 {
            if let Some(v) = m.emsg {
                top.push(emsg_node(v));
            }
        }
        let (mut moof, mut fmdat, _) = frag_nodes(m, fi, pl, &mut first_index);
        if m.large_moof {
            moof.large = true;
            fmdat.large = fi % 2 == 0;
        }
        if m.frags[fi].mdat_first {
            top.push(fmdat);
            top.push(moof);
        } else {
            top.push(moof);
            top.push(fmdat);
        }
    }
    (top, init_nodes)
}

pub fn node_at<'a>(top: &'a mut Vec<Node>, path: &[usize]) -> Option<&'a mut Node> {
    let mut cur: &mut Node = top.get_mut(*path.first()?)?;
    for i in &path[1..] {
        cur = cur.nth_child_mut(*i)?;
    }
    Some(cur)
}

/// Apply layout transformations. All paths and child indices refer to the tree *before* any
/// transformation: they are first resolved to node identities (tags assigned in DFS order) and the
/// operations are then carried out by identity, so they cannot disturb each other.
pub fn apply_xforms(top: &mut Vec<Node>, xforms: &[Xform]) {
    if xforms.is_empty() {
        return;
    }
    fn number(n: &mut Node, next: &mut u32) {
        n.tag = *next;
        *next += 1;
        for c in n.children_mut() {
            number(c, next);
        }
    }
    let mut next = 1u32;
    for n in top.iter_mut() {
        number(n, &mut next);
    }
    fn tag_at(top: &[Node], path: &[usize]) -> Option<u32> {
        let mut cur = top.get(*path.first()?)?;
        for i in &path[1..] {
            cur = cur.children().nth(*i)?;
        }
        Some(cur.tag)
    }
    fn child_tag(top: &[Node], path: &[usize], i: usize) -> Option<u32> {
        if path.is_empty() {
            top.get(i).map(|n| n.tag)
        } else {
            let mut cur = top.get(path[0])?;
            for k in &path[1..] {
                cur = cur.children().nth(*k)?;
            }
            cur.children().nth(i).map(|n| n.tag)
        }
    }
    enum Op {
        Large(u32),
        Spare(u32, u8),
        /// parent tag (0 = top level), tag of the child to insert before (0 = append)
        Insert(u32, u32, Cc, u16, bool),
        Swap(u32, u32, u32),
    }
    let mut ops = Vec::new();
    for x in xforms {
        match x {
            Xform::Large { path } => {
                if let Some(t) = tag_at(top, path) {
                    ops.push(Op::Large(t));
                }
            }
            Xform::Spare { path, n } => {
                if let Some(t) = tag_at(top, path) {
                    ops.push(Op::Spare(t, *n));
                }
            }
            Xform::Insert { path, pos, typ, len, large } => {
                let parent = if path.is_empty() { Some(0) } else { tag_at(top, path) };
                if let Some(p) = parent {
                    ops.push(Op::Insert(p, child_tag(top, path, *pos).unwrap_or(0), *typ, *len, *large));
                }
            }
            Xform::Swap { path, i, j } => {
                let parent = if path.is_empty() { Some(0) } else { tag_at(top, path) };
                if let (Some(p), Some(a), Some(b)) = (parent, child_tag(top, path, *i), child_tag(top, path, *j)) {
                    ops.push(Op::Swap(p, a, b));
                }
            }
        }
    }
    fn find<'a>(nodes: &'a mut [Node], tag: u32) -> Option<&'a mut Node> {
        for n in nodes.iter_mut() {
            if n.tag == tag {
                return Some(n);
            }
            let mut kids: Vec<&mut Node> = n.children_mut().collect();
            for k in kids.iter_mut() {
                if k.tag == tag {
                    // re-borrow through recursion below
                }
            }
            drop(kids);
            if let Some(f) = find_in(n, tag) {
                return Some(f);
            }
        }
        None
    }
    fn find_in<'a>(n: &'a mut Node, tag: u32) -> Option<&'a mut Node> {
        for p in n.parts.iter_mut() {
            if let Part::Child(c) = p {
                if c.tag == tag {
                    return Some(c);
                }
                if let Some(f) = find_in(c, tag) {
                    return Some(f);
                }
            }
        }
        None
    }
    for op in ops {
        match op {
            Op::Large(t) => {
                if let Some(n) = find(top, t) {
                    n.large = true;
                }
            }
            Op::Spare(t, k) => {
                if let Some(n) = find(top, t) {
                    n.spare = (0..k).map(|i| 0xC0 | (i & 0xf)).collect();
                }
            }
            Op::Insert(parent, before, typ, len, large) => {
                let filler: Vec<u8> = (0..len).map(|i| 0xD0 | (i as u8 & 0xf)).collect();
                let mut node = Node::leaf_cc(typ, filler);
                node.large = large;
                if parent == 0 {
                    let at = top.iter().position(|n| n.tag == before && before != 0).unwrap_or(top.len());
                    top.insert(at, node);
                } else if let Some(p) = find(top, parent) {
                    let at = p.parts.iter().position(|x| matches!(x, Part::Child(c) if c.tag == before && before != 0)).unwrap_or(p.parts.len());
                    p.parts.insert(at, Part::Child(node));
                }
            }
            Op::Swap(parent, a, b) => {
                if parent == 0 {
                    let (ia, ib) = (top.iter().position(|n| n.tag == a), top.iter().position(|n| n.tag == b));
                    if let (Some(ia), Some(ib)) = (ia, ib) {
                        top.swap(ia, ib);
                    }
                } else if let Some(p) = find(top, parent) {
                    let ia = p.parts.iter().position(|x| matches!(x, Part::Child(c) if c.tag == a));
                    let ib = p.parts.iter().position(|x| matches!(x, Part::Child(c) if c.tag == b));
                    if let (Some(ia), Some(ib)) = (ia, ib) {
                        p.parts.swap(ia, ib);
                    }
                }
            }
        }
    }
}

/// positions of top-level nodes
fn top_positions(top: &[Node]) -> Vec<u64> {
    let mut pos = 0u64;
    let mut out = Vec::new();
    for n in top {
        out.push(pos);
        pos += n.size();
    }
    out
}

fn compute_placement(m: &Movie, top: &[Node]) -> Placement {
    let pos = top_positions(top);
    // identify main mdat (the first mdat that is not a fragment mdat) and fragment (moof, mdat) pairs by order
    let (_, rel) = main_mdat(m);
    let mut chunk_off: Vec<Vec<u64>> = m.tracks.iter().map(|t| vec![0; t.chunks.len()]).collect();
    let mut frag: Vec<(u64, u64)> = Vec::new();
    // walk: nodes tagged by type; fragment nodes appear after the init part in order
    let mut main_mdat_payload: Option<u64> = None;
    let mut moofs: Vec<u64> = Vec::new();
    let mut mdats: Vec<u64> = Vec::new();
    for (i, n) in top.iter().enumerate() {
        if n.typ == cc("mdat") {
            mdats.push(pos[i] + n.header_len());
        } else if n.typ == cc("moof") {
            moofs.push(pos[i]);
        }
    }
    let has_main_mdat = m.tracks.iter().any(|t| !t.chunks.is_empty()) || m.frags.is_empty();
    let mut mdat_iter = mdats.into_iter();
    if has_main_mdat {
        main_mdat_payload = mdat_iter.next();
    }
    let frag_mdats: Vec<u64> = mdat_iter.collect();
    for fi in 0..m.frags.len() {
        frag.push((moofs.get(fi).copied().unwrap_or(0), frag_mdats.get(fi).copied().unwrap_or(0)));
    }
    if let Some(base) = main_mdat_payload {
        for ti in 0..m.tracks.len() {
            for ci in 0..m.tracks[ti].chunks.len() {
                chunk_off[ti][ci] = base + rel[ti][ci];
            }
        }
    }
    if let (Some((ti, ci)), None) = (m.zero_chunk, m.huge) {
        if let Some(o) = chunk_off.get_mut(ti).and_then(|v| v.get_mut(ci)) {
            *o = 0;
        }
    }
    Placement { chunk_off, frag }
}

fn insert_gap(top: &mut Vec<Node>, huge: Option<(u8, u64)>) -> Option<usize> {
    let (place, len) = huge?;
    let at = match place {
        0 => 1.min(top.len()),
        1 => 2.min(top.len()),
        _ => top.len(),
    };
    let mut n = Node::leaf("free", vec![]);
    n.large = true;
    n.parts = vec![Part::Phantom(len)];
    top.insert(at, n);
    Some(at)
}

pub fn build(m: &Movie) -> Built {
    // A gap in front of the media data pushes chunk offsets beyond 32 bits; the tracks concerned
    // then use co64 (decided here, before the sizes are fixed, because stco and co64 differ in size).
    let forced;
    let m = if m.huge.is_some() && m.tracks.iter().any(|t| !t.co64) {
        let zero = Placement { chunk_off: m.tracks.iter().map(|t| vec![0; t.chunks.len()]).collect(), frag: vec![(0, 0); m.frags.len()] };
        let (mut probe, _) = make_tree(m, &zero);
        apply_xforms(&mut probe, &m.xforms);
        insert_gap(&mut probe, m.huge);
        let pl = compute_placement(m, &probe);
        let mut c = m.clone();
        for (ti, t) in c.tracks.iter_mut().enumerate() {
            if pl.chunk_off[ti].iter().any(|o| *o > u32::MAX as u64 - 4096) {
                t.co64 = true;
            }
        }
        forced = c;
        &forced
    } else {
        m
    };
    // pass 1: zero placement to learn positions (box sizes do not depend on offset values, except
    // for the stco/co64 choice which only changes when offsets exceed 32 bits: never here)
    let zero = Placement { chunk_off: m.tracks.iter().map(|t| vec![0; t.chunks.len()]).collect(), frag: vec![(0, 0); m.frags.len()] };
    let (mut top0, _) = make_tree(m, &zero);
    apply_xforms(&mut top0, &m.xforms);
    insert_gap(&mut top0, m.huge);
    let pl = compute_placement(m, &top0);
    let (mut top, init_nodes) = make_tree(m, &pl);
    // number of nodes inserted at top level before the first fragment node shifts init_nodes
    apply_xforms(&mut top, &m.xforms);
    let gap_at = insert_gap(&mut top, m.huge);
    debug_assert_eq!(top_positions(&top), top_positions(&top0));
    let mut bytes = Vec::new();
    for n in &top {
        n.render_into(&mut bytes);
    }
    if m.last_to_eof {
        if let Some(last) = top.last() {
            if last.typ == cc("mdat") && !last.large {
                let at = bytes.len() - last.size() as usize;
                bytes[at..at + 4].copy_from_slice(&[0, 0, 0, 0]);
            }
        }
    }
    // init length: the init part ends after the later of moov and the main mdat (the main mdat is
    // always the first mdat in the list when it exists)
    let pos = top_positions(&top);
    let mut init_len = bytes.len();
    if !m.frags.is_empty() {
        let has_main_mdat = m.tracks.iter().any(|t| !t.chunks.is_empty());
        let moov_i = top.iter().position(|n| n.typ == cc("moov")).unwrap_or(0);
        let mdat_i = if has_main_mdat { top.iter().position(|n| n.typ == cc("mdat")).unwrap_or(0) } else { 0 };
        let last = moov_i.max(mdat_i);
        init_len = (pos[last] + top[last].size()) as usize;
    }
    let _ = init_nodes;
    let mut segment = Vec::new();
    if !m.frags.is_empty() {
        let shift = init_len as u64;
        let pl_seg = Placement { chunk_off: pl.chunk_off.clone(), frag: pl.frag.iter().map(|(a, b)| (a.saturating_sub(shift), b.saturating_sub(shift))).collect() };
        let (mut top_s, _) = make_tree(m, &pl_seg);
        apply_xforms(&mut top_s, &m.xforms);
        let pos_s = top_positions(&top_s);
        for (i, n) in top_s.iter().enumerate() {
            if pos_s[i] >= shift {
                n.render_into(&mut segment);
            }
        }
    }
    // ground truth
    let mut truth: Vec<TrackTruth> = Vec::new();
    let mut frag_first: Vec<u32> = m.tracks.iter().map(|t| t.samples.len() as u32).collect();
    let _ = &mut frag_first;
    for (ti, t) in m.tracks.iter().enumerate() {
        let mut samples = Vec::new();
        let fragmented = m.frags.iter().any(|f| f.trafs.iter().any(|tr| tr.track == ti));
        if !fragmented {
            let mut k = 0usize;
            let mut start = 0u64;
            for (ci, c) in t.chunks.iter().enumerate() {
                let mut off = pl.chunk_off[ti][ci];
                for _ in 0..*c {
                    let s = &t.samples[k];
                    samples.push(SampleTruth { offset: off, size: s.size, start, dur: s.dur, cts: if t.has_ctts { s.cts } else { 0 }, sync: Some(if t.has_stss { s.sync } else { true }), raw: None });
                    off += s.size as u64;
                    start += s.dur as u64;
                    k += 1;
                }
            }
        } else {
            // the library (and the property) number samples across fragments in file order;
            // table samples are not reachable once a track has fragments
            for (fi, f) in m.frags.iter().enumerate() {
                let (_moof_pos, mdat_payload) = pl.frag[fi];
                let mut rel = 0u64;
                for tr in &f.trafs {
                    rel += tr.lead as u64;
                    if !tr.has_trun {
                        continue;
                    }
                    if tr.track == ti {
                        let mut off = mdat_payload + rel;
                        let mut start = tr.tfdt.map(|x| x.1).unwrap_or(0);
                        for s in &tr.samples {
                            let dur = if tr.trun_dur { s.dur } else { tr.tfhd_dur.unwrap_or(t.trex_dur) };
                            samples.push(SampleTruth { offset: off, size: s.size, start, dur, cts: if tr.trun_cts { s.cts } else { 0 }, sync: None, raw: None });
                            off += s.size as u64;
                            start += dur as u64;
                        }
                    }
                    rel += tr.samples.iter().map(|s| s.size as u64).sum::<u64>();
                }
            }
        }
        let media_duration = t.samples.iter().map(|s| s.dur as u64).sum();
        truth.push(TrackTruth { id: t.id, samples, media_duration });
    }
    if let (Some((zt, zc)), None) = (m.zero_chunk, m.huge) {
        // the samples of that chunk are whatever the file holds at its start
        if let (Some(tt), Some(t)) = (truth.get_mut(zt), m.tracks.get(zt)) {
            if zc < t.chunks.len() && t.samples.len() == tt.samples.len() {
                let first: usize = t.chunks[..zc].iter().map(|c| *c as usize).sum();
                for k in first..first + t.chunks[zc] as usize {
                    let st = &mut tt.samples[k];
                    let (a, b) = (st.offset as usize, st.offset as usize + st.size as usize);
                    if b <= bytes.len() {
                        st.raw = Some(bytes[a..b].to_vec());
                    }
                }
            }
        }
    }
    let gap = gap_at.map(|i| ((top_positions(&top)[i] + 16) as usize, m.huge.map(|g| g.1).unwrap_or(0)));
    Built { bytes, truth, init_len, tree: top, segment, gap }
}

/// expected payload bytes of sample k (0-based, counted across table samples then fragments) of track t
pub fn expected_bytes(m: &Movie, ti: usize, k: u32, size: u32) -> Vec<u8> {
    let t = &m.tracks[ti];
    let fragmented = m.frags.iter().any(|f| f.trafs.iter().any(|tr| tr.track == ti));
    let idx = if fragmented { t.samples.len() as u32 + k } else { k };
    sample_bytes(t.id, idx, size)
}
