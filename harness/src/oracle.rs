//! Oracles shared by several properties: compare what the library reports for a file built by
//! the reference encoder with the builder's ground truth.

use crate::engine::{guard, guarded, Check, Failure};
use crate::refmp4::movie::{Built, Movie, TrackTruth};
use crate::{ensure, fail};
use mp4::Mp4Reader;
use std::io::{Cursor, Read, Seek};

pub fn open(bytes: &[u8]) -> Result<Mp4Reader<Cursor<Vec<u8>>>, Failure> {
    let len = bytes.len() as u64;
    let b = bytes.to_vec();
    match guarded("read_header", move || Mp4Reader::read_header(Cursor::new(b), len))? {
        Ok(r) => Ok(r),
        Err(e) => Err(Failure::new(format!("open-failed:{}", crate::engine::normalize_msg(&e.to_string())), format!("read_header failed on a valid file: {}", e))),
    }
}

/// open what the reference builder produced: a plain in-memory file, or, for movies with a
/// phantom gap (> 4 GiB), a stream that serves the gap's zero bytes without storing them
pub fn open_built(built: &Built) -> Result<Mp4Reader<crate::io::GapStream>, Failure> {
    let s = crate::io::GapStream::new(built.bytes.clone(), built.gap);
    let len = s.len();
    match guarded("read_header", move || Mp4Reader::read_header(s, len))? {
        Ok(r) => Ok(r),
        Err(e) => Err(Failure::new(format!("open-failed:{}", crate::engine::normalize_msg(&e.to_string())), format!("read_header failed on a valid file: {}", e))),
    }
}

pub struct SampleCheckOpts {
    pub check_sync: bool,
    pub prefix: &'static str,
}

/// Compare every sample of every track with the truth, plus out-of-range ids.
pub fn check_samples<R: Read + Seek>(reader: &mut Mp4Reader<R>, m: &Movie, truth: &[TrackTruth], o: &SampleCheckOpts) -> Check {
    let p = o.prefix;
    // track set
    let mut ids: Vec<u32> = reader.tracks().keys().copied().collect();
    ids.sort();
    let mut want: Vec<u32> = truth.iter().map(|t| t.id).collect();
    want.sort();
    ensure!(ids == want, format!("{}:tracks", p), "track ids {:?} != expected {:?}", ids, want);
    for (ti, tt) in truth.iter().enumerate() {
        let n = tt.samples.len() as u32;
        let cnt = guarded("sample_count", || reader.sample_count(tt.id))?;
        match cnt {
            Ok(c) => ensure!(c == n, format!("{}:count", p), "track {} sample_count {} != {}", tt.id, c, n),
            Err(e) => fail!(format!("{}:count-err", p), "track {} sample_count error {}", tt.id, e),
        }
        for k in 1..=n {
            let st = &tt.samples[k as usize - 1];
            let off = guarded("sample_offset", || reader.sample_offset(tt.id, k))?;
            match off {
                Ok(v) => ensure!(v == st.offset, format!("{}:offset", p), "track {} sample {} offset {} != {}", tt.id, k, v, st.offset),
                Err(e) => fail!(format!("{}:offset-err", p), "track {} sample {} of {}: sample_offset error {}", tt.id, k, n, e),
            }
            let s = guarded("read_sample", || reader.read_sample(tt.id, k))?;
            let s = match s {
                Ok(Some(s)) => s,
                Ok(None) => fail!(format!("{}:none", p), "track {} sample {} of {}: read_sample returned None", tt.id, k, n),
                Err(e) => fail!(format!("{}:read-err", p), "track {} sample {} of {}: read_sample error {}", tt.id, k, n, e),
            };
            let want_bytes = st.raw.clone().unwrap_or_else(|| crate::refmp4::movie::expected_bytes(m, ti, k - 1, st.size));
            ensure!(s.bytes.len() == want_bytes.len(), format!("{}:size", p), "track {} sample {}: {} bytes, expected {}", tt.id, k, s.bytes.len(), want_bytes.len());
            ensure!(s.bytes[..] == want_bytes[..], format!("{}:bytes", p), "track {} sample {}: payload differs (read at wrong offset?)", tt.id, k);
            ensure!(s.start_time == st.start, format!("{}:start", p), "track {} sample {}: start_time {} != {}", tt.id, k, s.start_time, st.start);
            ensure!(s.duration == st.dur, format!("{}:dur", p), "track {} sample {}: duration {} != {}", tt.id, k, s.duration, st.dur);
            ensure!(s.rendering_offset == st.cts, format!("{}:cts", p), "track {} sample {}: rendering_offset {} != {}", tt.id, k, s.rendering_offset, st.cts);
            if o.check_sync {
                if let Some(sy) = st.sync {
                    ensure!(s.is_sync == sy, format!("{}:sync", p), "track {} sample {}: is_sync {} != {}", tt.id, k, s.is_sync, sy);
                }
            }
        }
        // the same answers in another order (descending, on the same reader): lookups must not depend
        // on which sample was asked for before
        for k in (1..=n.min(48)).rev() {
            let st = &tt.samples[k as usize - 1];
            match guarded("read_sample", || reader.read_sample(tt.id, k))? {
                Ok(Some(s)) => {
                    ensure!(s.start_time == st.start && s.duration == st.dur && s.rendering_offset == st.cts && s.bytes.len() == st.size as usize, format!("{}:reread", p), "track {} sample {} read again after later samples: (start {}, dur {}, cts {}, {} bytes), expected ({}, {}, {}, {})", tt.id, k, s.start_time, s.duration, s.rendering_offset, s.bytes.len(), st.start, st.dur, st.cts, st.size);
                    let want_bytes = st.raw.clone().unwrap_or_else(|| crate::refmp4::movie::expected_bytes(m, ti, k - 1, st.size));
                    ensure!(s.bytes[..] == want_bytes[..], format!("{}:reread-bytes", p), "track {} sample {} read again after later samples: payload differs", tt.id, k);
                }
                Ok(None) => fail!(format!("{}:reread-none", p), "track {} sample {} read again after later samples: None", tt.id, k),
                Err(e) => fail!(format!("{}:reread-err", p), "track {} sample {} read again after later samples: {}", tt.id, k, e),
            }
            match guarded("sample_offset", || reader.sample_offset(tt.id, k))? {
                Ok(v) => ensure!(v == st.offset, format!("{}:reread-offset", p), "track {} sample {} offset asked again after later samples: {} != {}", tt.id, k, v, st.offset),
                Err(e) => fail!(format!("{}:reread-offset-err", p), "track {} sample {}: {}", tt.id, k, e),
            }
        }
        // ids outside 1..=count never yield a sample (a panic there is C06's business, not ours)
        for k in [0u32, n + 1, n + 2, u32::MAX] {
            if k >= 1 && k <= n {
                continue;
            }
            if let Ok(Ok(Some(_))) = guard(|| reader.read_sample(tt.id, k)) {
                fail!(format!("{}:oob-sample", p), "track {} has {} samples but read_sample({}) yielded a sample", tt.id, n, k);
            }
        }
    }
    Ok(())
}

pub fn check_built(m: &Movie, built: &Built, o: &SampleCheckOpts) -> Check {
    let mut r = open_built(built)?;
    check_samples(&mut r, m, &built.truth, o)
}
