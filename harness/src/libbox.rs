//! Spec -> library values, and the generic encode/decode checks of C04/C05.
//! Unnameable library types (AvcCBox, HvcCBox, EsdsBox, entries, ...) are reached through type
//! inference from witness values and `Default`.

use crate::boxes::*;
use crate::engine::{guard, Check, Failure};
use crate::refmp4::{self, Cc};
use crate::{ensure, fail};
use mp4::{BoxHeader, BoxType, FixedPointI8, FixedPointU16, FixedPointU8, FourCC, Mp4Box, ReadBox, WriteBox};
use std::io::Cursor;

pub trait LibBox: Mp4Box + PartialEq + std::fmt::Debug + Clone + for<'a> WriteBox<&'a mut Vec<u8>> + for<'a, 'b> WriteBox<&'a mut ChunkSink<'b>> + for<'a> ReadBox<&'a mut Cursor<Vec<u8>>> {}
impl<T> LibBox for T where T: Mp4Box + PartialEq + std::fmt::Debug + Clone + for<'a> WriteBox<&'a mut Vec<u8>> + for<'a, 'b> WriteBox<&'a mut ChunkSink<'b>> + for<'a> ReadBox<&'a mut Cursor<Vec<u8>>> {}

pub trait Visitor {
    type Out;
    fn visit<T: LibBox>(&mut self, v: &T) -> Self::Out;
}

fn fcc(c: &Cc) -> FourCC {
    FourCC { value: *c }
}

fn mvhd(h: &HeadS, rate: u32, volume: u16, matrix: &[i32; 9], next_track_id: u32) -> mp4::MvhdBox {
    let mut b = mp4::MvhdBox::default();
    b.version = h.version;
    b.flags = h.flags;
    b.creation_time = h.ctime;
    b.modification_time = h.mtime;
    b.timescale = h.a;
    b.duration = h.duration;
    b.rate = FixedPointU16::new_raw(rate);
    b.volume = FixedPointU8::new_raw(volume);
    {
        let m = &mut b.matrix;
        m.a = matrix[0];
        m.b = matrix[1];
        m.u = matrix[2];
        m.c = matrix[3];
        m.d = matrix[4];
        m.v = matrix[5];
        m.x = matrix[6];
        m.y = matrix[7];
        m.w = matrix[8];
    }
    b.next_track_id = next_track_id;
    b
}

#[allow(clippy::too_many_arguments)]
fn tkhd(h: &HeadS, layer: u16, alt_group: u16, volume: u16, matrix: &[i32; 9], width: u32, height: u32) -> mp4::TkhdBox {
    let mut b = mp4::TkhdBox::default();
    b.version = h.version;
    b.flags = h.flags;
    b.creation_time = h.ctime;
    b.modification_time = h.mtime;
    b.track_id = h.a;
    b.duration = h.duration;
    b.layer = layer;
    b.alternate_group = alt_group;
    b.volume = FixedPointU8::new_raw(volume);
    {
        let m = &mut b.matrix;
        m.a = matrix[0];
        m.b = matrix[1];
        m.u = matrix[2];
        m.c = matrix[3];
        m.d = matrix[4];
        m.v = matrix[5];
        m.x = matrix[6];
        m.y = matrix[7];
        m.w = matrix[8];
    }
    b.width = FixedPointU16::new_raw(width);
    b.height = FixedPointU16::new_raw(height);
    b
}

fn mdhd(h: &HeadS, lang: &[u8; 3]) -> mp4::MdhdBox {
    mp4::MdhdBox { version: h.version, flags: h.flags, creation_time: h.ctime, modification_time: h.mtime, timescale: h.a, duration: h.duration, language: lang.iter().map(|b| *b as char).collect() }
}

fn hdlr(version: u8, flags: u32, handler: &Cc, name: &str) -> mp4::HdlrBox {
    mp4::HdlrBox { version, flags, handler_type: fcc(handler), name: name.to_string() }
}

fn elst(e: &ElstS) -> mp4::ElstBox {
    let mut b = mp4::ElstBox { version: e.version, flags: e.flags, entries: vec![] };
    for x in &e.entries {
        b.entries.push(Default::default());
        let l = b.entries.last_mut().unwrap();
        l.segment_duration = x.0;
        l.media_time = x.1;
        l.media_rate = x.2;
        l.media_rate_fraction = x.3;
    }
    b
}

fn vmhd(version: u8, flags: u32, gm: u16, op: &[u16; 3]) -> mp4::VmhdBox {
    let mut b = mp4::VmhdBox::default();
    b.version = version;
    b.flags = flags;
    b.graphics_mode = gm;
    b.op_color.red = op[0];
    b.op_color.green = op[1];
    b.op_color.blue = op[2];
    b
}

fn stts(version: u8, flags: u32, entries: &[(u32, u32)]) -> mp4::SttsBox {
    let mut b = mp4::SttsBox { version, flags, entries: vec![] };
    for e in entries {
        b.entries.push(Default::default());
        let l = b.entries.last_mut().unwrap();
        l.sample_count = e.0;
        l.sample_delta = e.1;
    }
    b
}

fn ctts(version: u8, flags: u32, entries: &[(u32, i32)]) -> mp4::CttsBox {
    let mut b = mp4::CttsBox { version, flags, entries: vec![] };
    for e in entries {
        b.entries.push(Default::default());
        let l = b.entries.last_mut().unwrap();
        l.sample_count = e.0;
        l.sample_offset = e.1;
    }
    b
}

fn stsc(version: u8, flags: u32, entries: &[(u32, u32, u32)]) -> mp4::StscBox {
    let mut b = mp4::StscBox { version, flags, entries: vec![] };
    // first_sample is derived (not on the wire): 1 + sum over earlier runs of chunks * samples_per_chunk
    let mut first_sample: u64 = 1;
    for (i, e) in entries.iter().enumerate() {
        b.entries.push(Default::default());
        let l = b.entries.last_mut().unwrap();
        l.first_chunk = e.0;
        l.samples_per_chunk = e.1;
        l.sample_description_index = e.2;
        l.first_sample = first_sample as u32;
        if i + 1 < entries.len() {
            first_sample += (entries[i + 1].0 - e.0) as u64 * e.1 as u64;
        }
    }
    b
}

fn avc1(v: &VisualS, a: &AvcCS) -> mp4::Avc1Box {
    let mut b = mp4::Avc1Box::default();
    b.data_reference_index = v.data_ref;
    b.width = v.width;
    b.height = v.height;
    b.horizresolution = FixedPointU16::new_raw(v.hres);
    b.vertresolution = FixedPointU16::new_raw(v.vres);
    b.frame_count = v.frame_count;
    b.depth = v.depth;
    let c = &mut b.avcc;
    c.configuration_version = a.config_version;
    c.avc_profile_indication = a.profile;
    c.profile_compatibility = a.compat;
    c.avc_level_indication = a.level;
    c.length_size_minus_one = a.length_size_minus_one;
    c.sequence_parameter_sets.clear();
    c.picture_parameter_sets.clear();
    for s in &a.sps {
        c.sequence_parameter_sets.push((&s[..]).into());
    }
    for s in &a.pps {
        c.picture_parameter_sets.push((&s[..]).into());
    }
    b
}

fn hev1(v: &VisualS, h: &refmp4::HvcC) -> mp4::Hev1Box {
    let mut b = mp4::Hev1Box::default();
    b.data_reference_index = v.data_ref;
    b.width = v.width;
    b.height = v.height;
    b.horizresolution = FixedPointU16::new_raw(v.hres);
    b.vertresolution = FixedPointU16::new_raw(v.vres);
    b.frame_count = v.frame_count;
    b.depth = v.depth;
    let c = &mut b.hvcc;
    c.configuration_version = h.configuration_version;
    c.general_profile_space = h.general_profile_space;
    c.general_tier_flag = h.general_tier_flag;
    c.general_profile_idc = h.general_profile_idc;
    c.general_profile_compatibility_flags = h.general_profile_compatibility_flags;
    c.general_constraint_indicator_flag = h.general_constraint_indicator_flags;
    c.general_level_idc = h.general_level_idc;
    c.min_spatial_segmentation_idc = h.min_spatial_segmentation_idc;
    c.parallelism_type = h.parallelism_type;
    c.chroma_format_idc = h.chroma_format_idc;
    c.bit_depth_luma_minus8 = h.bit_depth_luma_minus8;
    c.bit_depth_chroma_minus8 = h.bit_depth_chroma_minus8;
    c.avg_frame_rate = h.avg_frame_rate;
    c.constant_frame_rate = h.constant_frame_rate;
    c.num_temporal_layers = h.num_temporal_layers;
    c.temporal_id_nested = h.temporal_id_nested;
    c.length_size_minus_one = h.length_size_minus_one;
    c.arrays.clear();
    for (complete, typ, nalus) in &h.arrays {
        c.arrays.push(Default::default());
        let a = c.arrays.last_mut().unwrap();
        a.completeness = *complete;
        a.nal_unit_type = *typ;
        for n in nalus {
            a.nalus.push(Default::default());
            let l = a.nalus.last_mut().unwrap();
            l.size = n.len() as u16;
            l.data = n.clone();
        }
    }
    b
}

fn vpcc(p: &VpccS) -> mp4::VpccBox {
    mp4::VpccBox {
        version: p.version,
        flags: p.flags,
        profile: p.profile,
        level: p.level,
        bit_depth: p.bit_depth,
        chroma_subsampling: p.chroma,
        video_full_range_flag: p.full_range,
        color_primaries: p.primaries,
        transfer_characteristics: p.transfer,
        matrix_coefficients: p.matrix,
        codec_initialization_data_size: p.init_size,
    }
}

fn vp09(p: &Vp09S) -> mp4::Vp09Box {
    let mut comp = [0u8; 32];
    comp.copy_from_slice(&p.compressor[..32]);
    mp4::Vp09Box {
        version: p.version,
        flags: p.flags,
        start_code: p.start_code,
        data_reference_index: p.data_ref,
        reserved0: p.reserved0,
        width: p.width,
        height: p.height,
        horizresolution: p.hres,
        vertresolution: p.vres,
        reserved1: p.reserved1,
        frame_count: p.frame_count,
        compressorname: comp,
        depth: p.depth,
        end_code: p.end_code,
        vpcc: vpcc(&p.vpcc),
    }
}

fn mp4a(data_ref: u16, channelcount: u16, samplesize: u16, samplerate: u32, e: &Option<EsdsS>) -> mp4::Mp4aBox {
    let mut b = mp4::Mp4aBox::default();
    b.data_reference_index = data_ref;
    b.channelcount = channelcount;
    b.samplesize = samplesize;
    b.samplerate = FixedPointU16::new_raw(samplerate);
    match e {
        None => b.esds = None,
        Some(e) => {
            let x = b.esds.as_mut().unwrap();
            x.version = e.version;
            x.flags = e.flags;
            x.es_desc.es_id = e.es_id;
            let d = &mut x.es_desc.dec_config;
            d.object_type_indication = e.object_type_indication;
            d.stream_type = e.stream_type;
            d.up_stream = if e.up_stream { 2 } else { 0 };
            d.buffer_size_db = e.buffer_size_db;
            d.max_bitrate = e.max_bitrate;
            d.avg_bitrate = e.avg_bitrate;
            d.dec_specific.profile = e.profile;
            d.dec_specific.freq_index = e.freq_index;
            d.dec_specific.chan_conf = e.chan_conf;
        }
    }
    b
}

fn tx3g(data_ref: u16, display_flags: u32, hj: i8, vj: i8, bg: &[u8; 4], box_record: &[i16; 4], style: &[u8; 12]) -> mp4::Tx3gBox {
    let mut b = mp4::Tx3gBox::default();
    b.data_reference_index = data_ref;
    b.display_flags = display_flags;
    b.horizontal_justification = hj;
    b.vertical_justification = vj;
    b.bg_color_rgba.red = bg[0];
    b.bg_color_rgba.green = bg[1];
    b.bg_color_rgba.blue = bg[2];
    b.bg_color_rgba.alpha = bg[3];
    b.box_record = *box_record;
    b.style_record = *style;
    b
}

fn stsd(version: u8, flags: u32, entry: &Spec) -> mp4::StsdBox {
    let mut b = mp4::StsdBox { version, flags, avc1: None, hev1: None, vp09: None, mp4a: None, tx3g: None };
    match entry {
        Spec::Avc1 { v, avcc } => b.avc1 = Some(avc1(v, avcc)),
        Spec::Hev1 { v, hvcc } => b.hev1 = Some(hev1(v, hvcc)),
        Spec::Vp09(p) => b.vp09 = Some(vp09(p)),
        Spec::Mp4a { data_ref, channelcount, samplesize, samplerate, esds } => b.mp4a = Some(mp4a(*data_ref, *channelcount, *samplesize, *samplerate, esds)),
        Spec::Tx3g { data_ref, display_flags, hj, vj, bg, box_record, style } => b.tx3g = Some(tx3g(*data_ref, *display_flags, *hj, *vj, bg, box_record, style)),
        _ => {}
    }
    b
}

fn stbl(s: &StblS) -> mp4::StblBox {
    let mut b = mp4::StblBox::default();
    if let Spec::Stsd { version, flags, entry } = &*s.stsd {
        b.stsd = stsd(*version, *flags, entry);
    }
    if let Spec::Stts { version, flags, entries } = &*s.stts {
        b.stts = stts(*version, *flags, entries);
    }
    b.ctts = s.ctts.as_ref().and_then(|c| if let Spec::Ctts { version, flags, entries } = &**c { Some(ctts(*version, *flags, entries)) } else { None });
    b.stss = s.stss.as_ref().and_then(|c| if let Spec::Stss { version, flags, entries } = &**c { Some(mp4::StssBox { version: *version, flags: *flags, entries: entries.clone() }) } else { None });
    if let Spec::Stsc { version, flags, entries } = &*s.stsc {
        b.stsc = stsc(*version, *flags, entries);
    }
    if let Spec::Stsz { version, flags, sample_size, sample_count, sizes } = &*s.stsz {
        b.stsz = mp4::StszBox { version: *version, flags: *flags, sample_size: *sample_size, sample_count: *sample_count, sample_sizes: sizes.clone() };
    }
    match &*s.co {
        Spec::Stco { version, flags, entries } => b.stco = Some(mp4::StcoBox { version: *version, flags: *flags, entries: entries.clone() }),
        Spec::Co64 { version, flags, entries } => b.co64 = Some(mp4::Co64Box { version: *version, flags: *flags, entries: entries.clone() }),
        _ => {}
    }
    b
}

fn minf(vm: &Option<Box<Spec>>, sm: &Option<Box<Spec>>, st: &Spec) -> mp4::MinfBox {
    let mut b = mp4::MinfBox::default();
    b.vmhd = vm.as_ref().and_then(|v| if let Spec::Vmhd { version, flags, graphics_mode, op } = &**v { Some(vmhd(*version, *flags, *graphics_mode, op)) } else { None });
    b.smhd = sm.as_ref().and_then(|v| if let Spec::Smhd { version, flags, balance } = &**v { Some(mp4::SmhdBox { version: *version, flags: *flags, balance: FixedPointI8::new_raw(*balance) }) } else { None });
    if let Spec::Stbl(s) = st {
        b.stbl = stbl(s);
    }
    b
}

fn mdia(md: &Spec, hd: &Spec, mi: &Spec) -> mp4::MdiaBox {
    let mut b = mp4::MdiaBox::default();
    if let Spec::Mdhd { h, lang } = md {
        b.mdhd = mdhd(h, lang);
    }
    if let Spec::Hdlr { version, flags, handler, name } = hd {
        b.hdlr = hdlr(*version, *flags, handler, name);
    }
    if let Spec::Minf { vmhd, smhd, stbl } = mi {
        b.minf = minf(vmhd, smhd, stbl);
    }
    b
}

fn data(d: &DataS) -> mp4::DataBox {
    use std::convert::TryFrom;
    mp4::DataBox { data: d.data.clone(), data_type: mp4::DataType::try_from(d.type_code).unwrap_or_default() }
}

fn ilst(items: &[(u8, DataS)]) -> mp4::IlstBox {
    let mut b = mp4::IlstBox::default();
    for (k, d) in items {
        let key = match k {
            0 => mp4::MetadataKey::Title,
            1 => mp4::MetadataKey::Year,
            2 => mp4::MetadataKey::Poster,
            _ => mp4::MetadataKey::Summary,
        };
        b.items.insert(key.clone(), Default::default());
        b.items.get_mut(&key).unwrap().data = data(d);
    }
    b
}

fn meta(m: &MetaS) -> mp4::MetaBox {
    match m {
        MetaS::Mdir { ilst: i } => mp4::MetaBox::Mdir { ilst: i.as_ref().map(|x| ilst(x)) },
        MetaS::Unknown { hdlr_version, hdlr_flags, handler, name, children } => mp4::MetaBox::Unknown { hdlr: hdlr(*hdlr_version, *hdlr_flags, handler, name), data: children.iter().map(|(t, p)| (BoxType::from(u32::from_be_bytes(*t)), p.clone())).collect() },
    }
}

fn trak(tk: &Spec, ed: &Option<Box<Spec>>, me: &Option<Box<Spec>>, md: &Spec) -> mp4::TrakBox {
    let mut b = mp4::TrakBox::default();
    if let Spec::Tkhd { h, layer, alt_group, volume, matrix, width, height } = tk {
        b.tkhd = tkhd(h, *layer, *alt_group, *volume, matrix, *width, *height);
    }
    b.edts = ed.as_ref().and_then(|e| if let Spec::Edts { elst: el } = &**e { Some(mp4::EdtsBox { elst: el.as_ref().map(elst) }) } else { None });
    b.meta = me.as_ref().and_then(|m| if let Spec::Meta(ms) = &**m { Some(meta(ms)) } else { None });
    if let Spec::Mdia { mdhd, hdlr, minf } = md {
        b.mdia = mdia(mdhd, hdlr, minf);
    }
    b
}

fn mehd(s: &Spec) -> Option<mp4::MehdBox> {
    if let Spec::Mehd { version, flags, duration } = s {
        Some(mp4::MehdBox { version: *version, flags: *flags, fragment_duration: *duration })
    } else {
        None
    }
}

fn trex(s: &Spec) -> mp4::TrexBox {
    if let Spec::Trex { version, flags, track_id, sdi, dur, size, sflags } = s {
        mp4::TrexBox { version: *version, flags: *flags, track_id: *track_id, default_sample_description_index: *sdi, default_sample_duration: *dur, default_sample_size: *size, default_sample_flags: *sflags }
    } else {
        mp4::TrexBox::default()
    }
}

fn mvex(me: &Option<Box<Spec>>, tr: &Spec) -> mp4::MvexBox {
    mp4::MvexBox { mehd: me.as_ref().and_then(|m| mehd(m)), trex: trex(tr) }
}

fn udta(m: &Option<Box<Spec>>) -> mp4::UdtaBox {
    mp4::UdtaBox { meta: m.as_ref().and_then(|x| if let Spec::Meta(ms) = &**x { Some(meta(ms)) } else { None }) }
}

fn tfhd(t: &TfhdS) -> mp4::TfhdBox {
    mp4::TfhdBox { version: t.version, flags: tfhd_flags(t), track_id: t.track_id, base_data_offset: t.base, sample_description_index: t.sdi, default_sample_duration: t.dur, default_sample_size: t.size, default_sample_flags: t.sflags }
}

fn trun(t: &TrunS) -> mp4::TrunBox {
    mp4::TrunBox {
        version: t.version,
        flags: trun_flags(t),
        sample_count: t.samples.len() as u32,
        data_offset: t.data_offset,
        first_sample_flags: t.first_flags,
        sample_durations: if t.has_dur { t.samples.iter().map(|s| s.0).collect() } else { vec![] },
        sample_sizes: if t.has_size { t.samples.iter().map(|s| s.1).collect() } else { vec![] },
        sample_flags: if t.has_flags { t.samples.iter().map(|s| s.2).collect() } else { vec![] },
        sample_cts: if t.has_cts { t.samples.iter().map(|s| s.3).collect() } else { vec![] },
    }
}

fn traf(tf: &Spec, td: &Option<Box<Spec>>, tr: &Option<Box<Spec>>) -> mp4::TrafBox {
    let mut b = mp4::TrafBox::default();
    if let Spec::Tfhd(t) = tf {
        b.tfhd = tfhd(t);
    }
    b.tfdt = td.as_ref().and_then(|x| if let Spec::Tfdt { version, flags, time } = &**x { Some(mp4::TfdtBox { version: *version, flags: *flags, base_media_decode_time: *time }) } else { None });
    b.trun = tr.as_ref().and_then(|x| if let Spec::Trun(t) = &**x { Some(trun(t)) } else { None });
    b
}

/// Build the library value for a spec and hand it to the visitor. Returns None for specs whose
/// library value cannot be constructed from outside the crate (non-default dinf: private field).
pub fn with_lib<V: Visitor>(spec: &Spec, vis: &mut V) -> Option<V::Out> {
    Some(match spec {
        Spec::Ftyp { major, minor, compat } => vis.visit(&mp4::FtypBox { major_brand: fcc(major), minor_version: *minor, compatible_brands: compat.iter().map(fcc).collect() }),
        Spec::Mvhd { h, rate, volume, matrix, next_track_id } => vis.visit(&mvhd(h, *rate, *volume, matrix, *next_track_id)),
        Spec::Tkhd { h, layer, alt_group, volume, matrix, width, height } => vis.visit(&tkhd(h, *layer, *alt_group, *volume, matrix, *width, *height)),
        Spec::Mdhd { h, lang } => vis.visit(&mdhd(h, lang)),
        Spec::Hdlr { version, flags, handler, name } => vis.visit(&hdlr(*version, *flags, handler, name)),
        Spec::Elst(e) => vis.visit(&elst(e)),
        Spec::Edts { elst: e } => vis.visit(&mp4::EdtsBox { elst: e.as_ref().map(elst) }),
        Spec::Vmhd { version, flags, graphics_mode, op } => vis.visit(&vmhd(*version, *flags, *graphics_mode, op)),
        Spec::Smhd { version, flags, balance } => vis.visit(&mp4::SmhdBox { version: *version, flags: *flags, balance: FixedPointI8::new_raw(*balance) }),
        Spec::Dinf { dref_version, dref_flags, url_version, url_flags, location } => {
            if *dref_version == 0 && *dref_flags == 0 && *url_version == 0 && *url_flags == 1 && location.is_empty() {
                vis.visit(&mp4::DinfBox::default())
            } else {
                return None;
            }
        }
        Spec::Stts { version, flags, entries } => vis.visit(&stts(*version, *flags, entries)),
        Spec::Ctts { version, flags, entries } => vis.visit(&ctts(*version, *flags, entries)),
        Spec::Stss { version, flags, entries } => vis.visit(&mp4::StssBox { version: *version, flags: *flags, entries: entries.clone() }),
        Spec::Stsc { version, flags, entries } => vis.visit(&stsc(*version, *flags, entries)),
        Spec::Stsz { version, flags, sample_size, sample_count, sizes } => vis.visit(&mp4::StszBox { version: *version, flags: *flags, sample_size: *sample_size, sample_count: *sample_count, sample_sizes: sizes.clone() }),
        Spec::Stco { version, flags, entries } => vis.visit(&mp4::StcoBox { version: *version, flags: *flags, entries: entries.clone() }),
        Spec::Co64 { version, flags, entries } => vis.visit(&mp4::Co64Box { version: *version, flags: *flags, entries: entries.clone() }),
        Spec::AvcC(a) => vis.visit(&avc1(&VisualS { data_ref: 0, width: 0, height: 0, hres: 0, vres: 0, frame_count: 0, depth: 0 }, a).avcc),
        Spec::Avc1 { v, avcc } => vis.visit(&avc1(v, avcc)),
        Spec::HvcC(h) => vis.visit(&hev1(&VisualS { data_ref: 0, width: 0, height: 0, hres: 0, vres: 0, frame_count: 0, depth: 0 }, h).hvcc),
        Spec::Hev1 { v, hvcc } => vis.visit(&hev1(v, hvcc)),
        Spec::VpcC(p) => vis.visit(&vpcc(p)),
        Spec::Vp09(p) => vis.visit(&vp09(p)),
        Spec::Esds(e) => vis.visit(mp4a(0, 0, 0, 0, &Some(e.clone())).esds.as_ref().unwrap()),
        Spec::Mp4a { data_ref, channelcount, samplesize, samplerate, esds } => vis.visit(&mp4a(*data_ref, *channelcount, *samplesize, *samplerate, esds)),
        Spec::Tx3g { data_ref, display_flags, hj, vj, bg, box_record, style } => vis.visit(&tx3g(*data_ref, *display_flags, *hj, *vj, bg, box_record, style)),
        Spec::Stsd { version, flags, entry } => vis.visit(&stsd(*version, *flags, entry)),
        Spec::Stbl(s) => vis.visit(&stbl(s)),
        Spec::Minf { vmhd, smhd, stbl } => vis.visit(&minf(vmhd, smhd, stbl)),
        Spec::Mdia { mdhd, hdlr, minf } => vis.visit(&mdia(mdhd, hdlr, minf)),
        Spec::Trak { tkhd, edts, meta, mdia } => vis.visit(&trak(tkhd, edts, meta, mdia)),
        Spec::Mehd { .. } => vis.visit(&mehd(spec).unwrap()),
        Spec::Trex { .. } => vis.visit(&trex(spec)),
        Spec::Mvex { mehd, trex } => vis.visit(&mvex(mehd, trex)),
        Spec::Moov { mvhd: mv, meta: me, mvex: mx, traks, udta: ud } => {
            let mut b = mp4::MoovBox::default();
            if let Spec::Mvhd { h, rate, volume, matrix, next_track_id } = &**mv {
                b.mvhd = mvhd(h, *rate, *volume, matrix, *next_track_id);
            }
            b.meta = me.as_ref().and_then(|m| if let Spec::Meta(ms) = &**m { Some(meta(ms)) } else { None });
            b.mvex = mx.as_ref().and_then(|m| if let Spec::Mvex { mehd, trex } = &**m { Some(mvex(mehd, trex)) } else { None });
            for t in traks {
                if let Spec::Trak { tkhd, edts, meta, mdia } = t {
                    b.traks.push(trak(tkhd, edts, meta, mdia));
                }
            }
            b.udta = ud.as_ref().and_then(|u| if let Spec::Udta { meta } = &**u { Some(udta(meta)) } else { None });
            vis.visit(&b)
        }
        Spec::Mfhd { version, flags, seq } => vis.visit(&mp4::MfhdBox { version: *version, flags: *flags, sequence_number: *seq }),
        Spec::Tfhd(t) => vis.visit(&tfhd(t)),
        Spec::Tfdt { version, flags, time } => vis.visit(&mp4::TfdtBox { version: *version, flags: *flags, base_media_decode_time: *time }),
        Spec::Trun(t) => vis.visit(&trun(t)),
        Spec::Traf { tfhd, tfdt, trun } => vis.visit(&traf(tfhd, tfdt, trun)),
        Spec::Moof { mfhd, trafs } => {
            let mut b = mp4::MoofBox::default();
            if let Spec::Mfhd { version, flags, seq } = &**mfhd {
                b.mfhd = mp4::MfhdBox { version: *version, flags: *flags, sequence_number: *seq };
            }
            for t in trafs {
                if let Spec::Traf { tfhd, tfdt, trun } = t {
                    b.trafs.push(traf(tfhd, tfdt, trun));
                }
            }
            vis.visit(&b)
        }
        Spec::Emsg { version, flags, timescale, ptime, pdelta, event_duration, id, scheme, value, data } => vis.visit(&mp4::EmsgBox {
            version: *version,
            flags: *flags,
            timescale: *timescale,
            presentation_time: if *version == 1 { Some(*ptime) } else { None },
            presentation_time_delta: if *version == 0 { Some(*pdelta) } else { None },
            event_duration: *event_duration,
            id: *id,
            scheme_id_uri: scheme.clone(),
            value: value.clone(),
            message_data: data.clone(),
        }),
        Spec::Data(d) => vis.visit(&data(d)),
        Spec::Ilst { items } => vis.visit(&ilst(items)),
        Spec::Meta(m) => vis.visit(&meta(m)),
        Spec::Udta { meta } => vis.visit(&udta(meta)),
    })
}

// ------------------------------------------------------------------------------------------
// generic encode / decode
// ------------------------------------------------------------------------------------------

thread_local! {
    /// 0: `encode` writes into a Vec (every write call taken whole); n > 0: into a legal sink that
    /// accepts at most n bytes per write call
    pub static ENC_SINK_LIMIT: std::cell::Cell<usize> = const { std::cell::Cell::new(0) };
}

pub struct ChunkSink<'a> {
    buf: &'a mut Vec<u8>,
    max: usize,
}

impl<'a> std::io::Write for ChunkSink<'a> {
    fn write(&mut self, b: &[u8]) -> std::io::Result<usize> {
        let n = b.len().min(self.max);
        self.buf.extend_from_slice(&b[..n]);
        Ok(n)
    }
    fn flush(&mut self) -> std::io::Result<()> {
        Ok(())
    }
}

pub fn encode<T: LibBox>(v: &T, kind: &str) -> Result<Result<(Vec<u8>, u64), String>, Failure> {
    let mut buf: Vec<u8> = Vec::new();
    let lim = ENC_SINK_LIMIT.with(|c| c.get());
    let r = if lim == 0 {
        guard(|| v.write_box(&mut buf))
    } else {
        let mut sink = ChunkSink { buf: &mut buf, max: lim };
        guard(|| v.write_box(&mut sink))
    }
    .map_err(|p| p.failure(&format!("write_box({})", kind)))?;
    Ok(match r {
        Ok(n) => Ok((buf, n)),
        Err(e) => Err(e.to_string()),
    })
}

/// decode one box of the same type as the witness from the start of `bytes`; returns the value and
/// the stream position afterwards
pub fn decode<T: LibBox>(_witness: &T, bytes: &[u8], kind: &str) -> Result<Result<(T, u64), String>, Failure> {
    let mut cur = Cursor::new(bytes.to_vec());
    let r = guard(|| -> Result<T, mp4::Error> {
        let h = BoxHeader::read(&mut cur)?;
        T::read_box(&mut cur, h.size)
    })
    .map_err(|p| p.failure(&format!("read_box({})", kind)))?;
    Ok(match r {
        Ok(v) => Ok((v, cur.position())),
        Err(e) => Err(e.to_string()),
    })
}

pub fn first_diff(a: &[u8], b: &[u8]) -> String {
    let n = a.len().min(b.len());
    match (0..n).find(|i| a[*i] != b[*i]) {
        Some(i) => format!("first difference at byte {}: {:#04x} vs {:#04x} (lengths {} / {})", i, a[i], b[i], a.len(), b.len()),
        None => format!("common prefix equal; lengths {} vs {}", a.len(), b.len()),
    }
}

/// C04 forward: size exactness, header, decode in three contexts, equality
pub struct Forward<'a> {
    pub kind: &'a str,
    pub fourcc: Cc,
    pub tails: &'a [Vec<u8>],
}

impl<'a> Visitor for Forward<'a> {
    type Out = Check;
    fn visit<T: LibBox>(&mut self, v: &T) -> Check {
        let k = self.kind;
        let (buf, ret) = match encode(v, k)? {
            Ok(x) => x,
            Err(e) => fail!(format!("c04:encode-error:{}", k), "write_box of a representable {} value failed: {} [{:?}]", k, e, v),
        };
        let size = guard(|| v.box_size()).map_err(|p| p.failure(&format!("box_size({})", k)))?;
        ensure!(buf.len() as u64 == size, format!("c04:size:{}", k), "{}: wrote {} bytes but box_size() = {}", k, buf.len(), size);
        ensure!(ret == size, format!("c04:return:{}", k), "{}: write_box returned {} but wrote {} bytes (box_size {})", k, ret, buf.len(), size);
        ensure!(buf.len() >= 8, format!("c04:header:{}", k), "{}: fewer than 8 bytes written", k);
        let hsize = u32::from_be_bytes([buf[0], buf[1], buf[2], buf[3]]) as u64;
        ensure!(hsize == size, format!("c04:header-size:{}", k), "{}: header size field {} != {}", k, hsize, size);
        ensure!(buf[4..8] == self.fourcc, format!("c04:header-type:{}", k), "{}: header carries type {:?}", k, String::from_utf8_lossy(&buf[4..8]));
        let bt: u32 = v.box_type().into();
        ensure!(bt.to_be_bytes() == self.fourcc, format!("c04:box_type:{}", k), "{}: box_type() is {:?}", k, String::from_utf8_lossy(&bt.to_be_bytes()));
        for tail in self.tails {
            let mut bytes = buf.clone();
            bytes.extend_from_slice(tail);
            match decode(v, &bytes, k)? {
                Err(e) => fail!(format!("c04:decode-error:{}", k), "{}: decoding its own encoding failed: {} (followed by {} more bytes) [{:?}]", k, e, tail.len(), v),
                Ok((v2, pos)) => {
                    ensure!(pos == buf.len() as u64, format!("c04:position:{}", k), "{}: decoder left the stream at {} instead of {} ({} trailing bytes follow)", k, pos, buf.len(), tail.len());
                    ensure!(&v2 == v, format!("c04:roundtrip:{}", k), "{}: decode(encode(v)) != v\n  v  = {:?}\n  v' = {:?}", k, v, v2);
                }
            }
        }
        // the same when the box does not start at stream position 0: preceded by a sibling box
        // (and followed by the first tail)
        for head in [&[0u8, 0, 0, 12, b'f', b'r', b'e', b'e', 9, 9, 9, 9][..], &[0u8; 37][..]] {
            let mut bytes = head.to_vec();
            bytes.extend_from_slice(&buf);
            if let Some(t) = self.tails.first() {
                bytes.extend_from_slice(t);
            }
            let mut cur = Cursor::new(bytes);
            cur.set_position(head.len() as u64);
            let r = guard(|| -> Result<T, mp4::Error> {
                let h = BoxHeader::read(&mut cur)?;
                T::read_box(&mut cur, h.size)
            })
            .map_err(|p| p.failure(&format!("read_box({})", k)))?;
            match r {
                Err(e) => fail!(format!("c04:decode-error-at-offset:{}", k), "{}: decoding its own encoding at stream offset {} failed: {} [{:?}]", k, head.len(), e, v),
                Ok(v2) => {
                    let pos = cur.position();
                    ensure!(pos == (head.len() + buf.len()) as u64, format!("c04:position-at-offset:{}", k), "{}: box at offset {}: decoder left the stream at {} instead of {}", k, head.len(), pos, head.len() + buf.len());
                    ensure!(&v2 == v, format!("c04:roundtrip-at-offset:{}", k), "{}: box decoded at stream offset {} differs from the value encoded\n  v  = {:?}\n  v' = {:?}", k, head.len(), v, v2);
                }
            }
        }
        Ok(())
    }
}

/// C04 converse: re-encoding accepted bytes is a fixpoint
pub struct Converse<'a> {
    pub kind: &'a str,
    pub bytes: &'a [u8],
    pub compare_bytes: bool,
    /// out: did the decoder accept the bytes / did re-encoding succeed
    pub accepted: bool,
    pub reencoded: bool,
}

thread_local! {
    /// when set, `Converse` also calls summary(), to_json() and box_size() on every decoded value
    pub static RENDER_DECODED: std::cell::Cell<bool> = const { std::cell::Cell::new(false) };
}

thread_local! {
    /// inputs skipped by `slow_reencode` on this thread (reported as excluded by construction)
    pub static SLOW_REENCODE_SKIPPED: std::cell::Cell<u64> = const { std::cell::Cell::new(0) };
}

/// A trun without per-sample fields carries a sample_count that nothing in the box backs; the
/// library's encoder iterates sample_count times over an empty body, so re-encoding such a value
/// with a count in the billions takes seconds to minutes of CPU (write-side CPU time is not the
/// subject of any listed property). Such inputs are left out of the converse check; counts up to
/// 2^20 stay in.
pub fn slow_reencode(kind: &str, bytes: &[u8]) -> bool {
    let heavy = |ext: usize| {
        if ext + 8 > bytes.len() {
            return false;
        }
        let flags = u32::from_be_bytes([0, bytes[ext + 1], bytes[ext + 2], bytes[ext + 3]]);
        let count = u32::from_be_bytes([bytes[ext + 4], bytes[ext + 5], bytes[ext + 6], bytes[ext + 7]]);
        flags & 0x000F00 == 0 && count > (1 << 20)
    };
    if kind == "trun" && bytes.len() >= 8 {
        // the stand-alone decoder is handed the body whatever the four-character code says
        let ext = if bytes[..4] == [0, 0, 0, 1] { 16 } else { 8 };
        if heavy(ext) {
            return true;
        }
    }
    let mut i = 0;
    while i + 12 <= bytes.len() {
        if &bytes[i..i + 4] == b"trun" && (heavy(i + 4) || heavy(i + 12)) {
            return true;
        }
        i += 1;
    }
    false
}

impl<'a> Visitor for Converse<'a> {
    type Out = Check;
    fn visit<T: LibBox>(&mut self, w: &T) -> Check {
        let k = self.kind;
        if slow_reencode(k, self.bytes) {
            SLOW_REENCODE_SKIPPED.with(|c| c.set(c.get() + 1));
            return Ok(());
        }
        let v1 = match decode(w, self.bytes, k)? {
            Ok((v, _)) => v,
            Err(_) => return Ok(()),
        };
        self.accepted = true;
        if RENDER_DECODED.with(|r| r.get()) {
            // C06: the read-side renderings of whatever the decoder produced
            guard(|| {
                let _ = mp4::Mp4Box::summary(&v1);
                let _ = mp4::Mp4Box::to_json(&v1);
                let _ = mp4::Mp4Box::box_size(&v1);
            })
            .map_err(|p| p.failure(&format!("read_box({})+summary/to_json", k)))?;
        }
        let b2 = match encode(&v1, k)? {
            Ok((b, _)) => b,
            Err(_) => return Ok(()),
        };
        self.reencoded = true;
        let (v2, pos) = match decode(&v1, &b2, k)? {
            Ok(x) => x,
            Err(e) => fail!(format!("c04:fixpoint-decode:{}", k), "{}: bytes accepted by the decoder re-encode to bytes it rejects: {}", k, e),
        };
        ensure!(v2 == v1, format!("c04:fixpoint-value:{}", k), "{}: decode(encode(v1)) != v1\n  v1 = {:?}\n  v2 = {:?}", k, v1, v2);
        ensure!(pos == b2.len() as u64, format!("c04:fixpoint-position:{}", k), "{}: re-encoded box of {} bytes decoded up to {}", k, b2.len(), pos);
        if self.compare_bytes {
            let b3 = match encode(&v2, k)? {
                Ok((b, _)) => b,
                Err(e) => fail!(format!("c04:fixpoint-encode:{}", k), "{}: second re-encoding failed: {}", k, e),
            };
            ensure!(b3 == b2, format!("c04:fixpoint-bytes:{}", k), "{}: encode(v2) != encode(v1): {}", k, first_diff(&b3, &b2));
        }
        Ok(())
    }
}

/// C05 (i): library bytes == reference bytes (after masking); `out` receives the library bytes
pub struct BytesVsRef<'a> {
    pub kind: &'a str,
    pub reference: &'a [u8],
    pub mask: &'a [(usize, u8)],
}

impl<'a> Visitor for BytesVsRef<'a> {
    type Out = Check;
    fn visit<T: LibBox>(&mut self, v: &T) -> Check {
        let k = self.kind;
        let (mut buf, _) = match encode(v, k)? {
            Ok(x) => x,
            Err(e) => fail!(format!("c05:encode-error:{}", k), "write_box of a representable {} value failed: {}", k, e),
        };
        let mut r = self.reference.to_vec();
        for (off, m) in self.mask {
            if *off < buf.len() {
                buf[*off] |= m;
            }
            if *off < r.len() {
                r[*off] |= m;
            }
        }
        if buf != r {
            // the order of children inside order-free containers is not prescribed by ISO/IEC 14496-12:
            // compare again with the children of such containers sorted
            let (cb, cr) = (crate::refmp4::parse::canonical(&buf), crate::refmp4::parse::canonical(&r));
            ensure!(cb == cr, format!("c05:bytes:{}", k), "{}: library encoding differs from the reference encoding: {} [{:?}]", k, first_diff(&buf, &r), v);
        }
        Ok(())
    }
}

/// C05 (ii): decoding reference-encoded bytes yields the value
pub struct DecodeRef<'a> {
    pub kind: &'a str,
    pub reference: &'a [u8],
    pub layout: &'a str,
}

impl<'a> Visitor for DecodeRef<'a> {
    type Out = Check;
    fn visit<T: LibBox>(&mut self, v: &T) -> Check {
        let k = self.kind;
        match decode(v, self.reference, k)? {
            Err(e) => fail!(format!("c05:decode-error:{}:{}", k, self.layout), "{}: the library rejects the reference encoding ({} layout): {}", k, self.layout, e),
            Ok((v2, pos)) => {
                ensure!(&v2 == v, format!("c05:decode:{}:{}", k, self.layout), "{}: decoding the reference encoding ({} layout) gives different fields\n  expected {:?}\n  decoded  {:?}", k, self.layout, v, v2);
                ensure!(pos == self.reference.len() as u64, format!("c05:decode-position:{}:{}", k, self.layout), "{}: decoder stopped at {} of {} bytes ({} layout)", k, pos, self.reference.len(), self.layout);
                Ok(())
            }
        }
    }
}

/// does the spec contain an ilst with two or more items (HashMap order => byte order not stable)?
pub fn has_multi_ilst(s: &Spec) -> bool {
    match s {
        Spec::Ilst { items } => items.len() >= 2,
        Spec::Meta(MetaS::Mdir { ilst: Some(i) }) => i.len() >= 2,
        Spec::Udta { meta: Some(m) } => has_multi_ilst(m),
        Spec::Trak { meta, .. } => meta.as_ref().map(|m| has_multi_ilst(m)).unwrap_or(false),
        Spec::Moov { meta, traks, udta, .. } => meta.as_ref().map(|m| has_multi_ilst(m)).unwrap_or(false) || udta.as_ref().map(|m| has_multi_ilst(m)).unwrap_or(false) || traks.iter().any(has_multi_ilst),
        _ => false,
    }
}

/// placeholder witness for kinds whose values cannot be built (dinf): the default value
pub fn dinf_witness() -> mp4::DinfBox {
    mp4::DinfBox::default()
}

