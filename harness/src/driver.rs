//! "Call every read-side API" driver shared by C06/C07/C08/C11: every call is guarded and
//! monitored (stream operations/bytes with a hard budget, thread CPU time, allocator counters).

use crate::alloc::{self, AllocStats};
use crate::engine::{guard, PanicRec};
use crate::io::{CountingStream, Stats};
use mp4::{Metadata, Mp4Box, Mp4Reader};
use std::io::Cursor;
use std::rc::Rc;

pub const OPS_PER_BYTE: u64 = 24;
pub const OPS_CONST: u64 = 65_536;
pub const CALL_OPS: u64 = 64;

#[derive(Debug, Clone)]
pub struct CallRec {
    pub name: String,
    pub panic: Option<PanicRec>,
    pub err: Option<String>,
    pub ops: u64,
    pub bytes: u64,
    pub budget_hit: bool,
    pub cpu_ns: u64,
    pub alloc: AllocStats,
    /// for read_sample: size of the returned sample (0 otherwise)
    pub sample_len: u64,
    /// input length the work bound refers to
    pub n: u64,
    /// true for the open calls (read_header / read_fragment_header)
    pub is_open: bool,
}

#[derive(Debug, Default)]
pub struct Exercise {
    pub calls: Vec<CallRec>,
    pub opened: bool,
    pub open_err: Option<String>,
    pub frag_opened: bool,
    pub tracks: usize,
    pub max_samples: u32,
}

pub fn thread_cpu_ns() -> u64 {
    let mut ts = libc::timespec { tv_sec: 0, tv_nsec: 0 };
    unsafe {
        libc::clock_gettime(libc::CLOCK_THREAD_CPUTIME_ID, &mut ts);
    }
    ts.tv_sec as u64 * 1_000_000_000 + ts.tv_nsec as u64
}

pub type Rd = Mp4Reader<CountingStream<Cursor<Vec<u8>>>>;

pub struct Monitor {
    pub recs: Vec<CallRec>,
    pub timing: bool,
    /// length of the input under test: the n of calls that do not name one (to_json, summary)
    pub default_n: u64,
}

impl Monitor {
    /// run one guarded, monitored call
    pub fn call<T>(&mut self, name: &str, stats: Option<&Rc<Stats>>, budget: u64, n: u64, is_open: bool, f: impl FnOnce() -> Result<T, String>) -> Option<T> {
        let n = if n == 0 { self.default_n } else { n };
        if let Some(s) = stats {
            s.reset();
            s.budget_ops.set(budget);
        }
        // thread CPU time is a real system call: only time calls that touch the stream or render JSON
        let timed = self.timing && (stats.is_some() || name.starts_with("to_json") || name.ends_with("frame_rate") || name.ends_with("bitrate"));
        let t0 = if timed { thread_cpu_ns() } else { 0 };
        alloc::start();
        let r = guard(f);
        let a = alloc::stop();
        let t1 = if timed { thread_cpu_ns() } else { 0 };
        let (ops, bytes, hit) = stats.map(|s| (s.ops.get(), s.bytes.get(), s.budget_hit.get())).unwrap_or((0, 0, false));
        let mut rec = CallRec { name: name.to_string(), panic: None, err: None, ops, bytes, budget_hit: hit, cpu_ns: t1.saturating_sub(t0), alloc: a, sample_len: 0, n, is_open };
        let out = match r {
            Ok(Ok(v)) => Some(v),
            Ok(Err(e)) => {
                rec.err = Some(e);
                None
            }
            Err(p) => {
                rec.panic = Some(p);
                None
            }
        };
        self.recs.push(rec);
        out
    }
}

pub fn sample_ids(count: u32) -> Vec<u32> {
    let mut v: Vec<u32> = vec![0];
    for k in 1..=count.min(64) {
        v.push(k);
    }
    for k in [count.wrapping_sub(1), count, count.wrapping_add(1), 1 << 31, u32::MAX] {
        if !v.contains(&k) {
            v.push(k);
        }
    }
    v
}

/// to_json + summary + box_size of a root box (to_json serialises the whole subtree)
macro_rules! js {
    ($mon:expr, $name:expr, $b:expr) => {{
        let b = $b;
        $mon.call(concat!("to_json(", $name, ")"), None, 0, 0, false, || Mp4Box::to_json(b).map(|s| s.len()).map_err(|e| e.to_string()));
        $mon.call(concat!("summary(", $name, ")"), None, 0, 0, false, || Mp4Box::summary(b).map(|s| s.len()).map_err(|e| e.to_string()));
    }};
}

/// summary + box_size + box_type of a nested box (its JSON is covered by the root's to_json)
macro_rules! sm {
    ($mon:expr, $name:expr, $b:expr) => {{
        let b = $b;
        $mon.call(concat!("summary(", $name, ")"), None, 0, 0, false, || {
            let _ = Mp4Box::box_size(b);
            let _ = Mp4Box::box_type(b);
            Mp4Box::summary(b).map(|s| s.len()).map_err(|e| e.to_string())
        });
    }};
}

fn render_all(mon: &mut Monitor, r: &Rd) {
    js!(mon, "ftyp", &r.ftyp);
    js!(mon, "moov", &r.moov);
    sm!(mon, "mvhd", &r.moov.mvhd);
    if let Some(m) = &r.moov.meta {
        js!(mon, "moov.meta", m);
    }
    if let Some(mvex) = &r.moov.mvex {
        sm!(mon, "mvex", mvex);
        if let Some(mehd) = &mvex.mehd {
            sm!(mon, "mehd", mehd);
        }
        sm!(mon, "trex", &mvex.trex);
    }
    if let Some(udta) = &r.moov.udta {
        sm!(mon, "udta", udta);
        if let Some(meta) = &udta.meta {
            js!(mon, "meta", meta);
            if let mp4::MetaBox::Mdir { ilst: Some(ilst) } = meta {
                sm!(mon, "ilst", ilst);
                for (_, item) in ilst.items.iter().take(4) {
                    sm!(mon, "data", &item.data);
                }
            }
        }
    }
    for trak in r.moov.traks.iter().take(6) {
        sm!(mon, "trak", trak);
        sm!(mon, "tkhd", &trak.tkhd);
        if let Some(edts) = &trak.edts {
            sm!(mon, "edts", edts);
            if let Some(elst) = &edts.elst {
                sm!(mon, "elst", elst);
            }
        }
        if let Some(m) = &trak.meta {
            js!(mon, "trak.meta", m);
        }
        sm!(mon, "mdia", &trak.mdia);
        sm!(mon, "mdhd", &trak.mdia.mdhd);
        sm!(mon, "hdlr", &trak.mdia.hdlr);
        let minf = &trak.mdia.minf;
        sm!(mon, "minf", minf);
        if let Some(v) = &minf.vmhd {
            sm!(mon, "vmhd", v);
        }
        if let Some(v) = &minf.smhd {
            sm!(mon, "smhd", v);
        }
        sm!(mon, "dinf", &minf.dinf);
        let stbl = &minf.stbl;
        sm!(mon, "stbl", stbl);
        js!(mon, "stsd", &stbl.stsd);
        if let Some(x) = &stbl.stsd.avc1 {
            sm!(mon, "avc1", x);
            sm!(mon, "avcC", &x.avcc);
        }
        if let Some(x) = &stbl.stsd.hev1 {
            sm!(mon, "hev1", x);
            sm!(mon, "hvcC", &x.hvcc);
        }
        if let Some(x) = &stbl.stsd.vp09 {
            sm!(mon, "vp09", x);
            sm!(mon, "vpcC", &x.vpcc);
        }
        if let Some(x) = &stbl.stsd.mp4a {
            sm!(mon, "mp4a", x);
            if let Some(e) = &x.esds {
                sm!(mon, "esds", e);
            }
        }
        if let Some(x) = &stbl.stsd.tx3g {
            sm!(mon, "tx3g", x);
        }
        sm!(mon, "stts", &stbl.stts);
        if let Some(x) = &stbl.ctts {
            sm!(mon, "ctts", x);
        }
        if let Some(x) = &stbl.stss {
            sm!(mon, "stss", x);
        }
        sm!(mon, "stsc", &stbl.stsc);
        sm!(mon, "stsz", &stbl.stsz);
        if let Some(x) = &stbl.stco {
            sm!(mon, "stco", x);
        }
        if let Some(x) = &stbl.co64 {
            sm!(mon, "co64", x);
        }
    }
    for moof in r.moofs.iter().take(4) {
        js!(mon, "moof", moof);
        sm!(mon, "mfhd", &moof.mfhd);
        for traf in moof.trafs.iter().take(4) {
            sm!(mon, "traf", traf);
            sm!(mon, "tfhd", &traf.tfhd);
            if let Some(x) = &traf.tfdt {
                sm!(mon, "tfdt", x);
            }
            if let Some(x) = &traf.trun {
                sm!(mon, "trun", x);
            }
        }
    }
    for e in r.emsgs.iter().take(4) {
        js!(mon, "emsg", e);
    }
}

fn use_reader(mon: &mut Monitor, r: &mut Rd, stats: &Rc<Stats>, n: u64, ex: &mut Exercise, tag: &str) {
    let nm = |s: &str| format!("{}{}", tag, s);
    let light = !tag.is_empty();
    mon.call(&nm("size"), None, 0, n, false, || Ok(r.size()));
    mon.call(&nm("major_brand"), None, 0, n, false, || Ok(r.major_brand().value));
    mon.call(&nm("minor_version"), None, 0, n, false, || Ok(r.minor_version()));
    mon.call(&nm("compatible_brands"), None, 0, n, false, || Ok(r.compatible_brands().len()));
    mon.call(&nm("Mp4Reader::duration"), None, 0, n, false, || Ok(r.duration()));
    mon.call(&nm("timescale"), None, 0, n, false, || Ok(r.timescale()));
    mon.call(&nm("is_fragmented"), None, 0, n, false, || Ok(r.is_fragmented()));
    if !light {
        let md = r.metadata();
        mon.call(&nm("metadata.title"), None, 0, n, false, || Ok(md.title().map(|c| c.len())));
        mon.call(&nm("metadata.year"), None, 0, n, false, || Ok(md.year()));
        mon.call(&nm("metadata.poster"), None, 0, n, false, || Ok(md.poster().map(|c| c.len())));
        mon.call(&nm("metadata.summary"), None, 0, n, false, || Ok(md.summary().map(|c| c.len())));
    }
    let mut ids: Vec<u32> = r.tracks().keys().copied().collect();
    ids.sort();
    ex.tracks = ex.tracks.max(ids.len());
    ids.truncate(6);
    let mut counts: Vec<(u32, u32)> = Vec::new();
    for id in &ids {
        let t = &r.tracks()[id];
        if light {
            let c = mon.call(&nm("Mp4Track::sample_count"), None, 0, n, false, || Ok(t.sample_count())).unwrap_or(0);
            counts.push((*id, c));
            ex.max_samples = ex.max_samples.max(c);
            continue;
        }
        mon.call(&nm("track_id"), None, 0, n, false, || Ok(t.track_id()));
        mon.call(&nm("track_type"), None, 0, n, false, || t.track_type().map(|_| ()).map_err(|e| e.to_string()));
        mon.call(&nm("media_type"), None, 0, n, false, || t.media_type().map(|_| ()).map_err(|e| e.to_string()));
        mon.call(&nm("box_type"), None, 0, n, false, || t.box_type().map(|_| ()).map_err(|e| e.to_string()));
        mon.call(&nm("width"), None, 0, n, false, || Ok(t.width()));
        mon.call(&nm("height"), None, 0, n, false, || Ok(t.height()));
        mon.call(&nm("frame_rate"), None, 0, n, false, || Ok(t.frame_rate()));
        mon.call(&nm("sample_freq_index"), None, 0, n, false, || t.sample_freq_index().map(|_| ()).map_err(|e| e.to_string()));
        mon.call(&nm("channel_config"), None, 0, n, false, || t.channel_config().map(|_| ()).map_err(|e| e.to_string()));
        mon.call(&nm("language"), None, 0, n, false, || Ok(t.language().len()));
        mon.call(&nm("Mp4Track::timescale"), None, 0, n, false, || Ok(t.timescale()));
        mon.call(&nm("Mp4Track::duration"), None, 0, n, false, || Ok(t.duration()));
        mon.call(&nm("bitrate"), None, 0, n, false, || Ok(t.bitrate()));
        mon.call(&nm("video_profile"), None, 0, n, false, || t.video_profile().map(|_| ()).map_err(|e| e.to_string()));
        mon.call(&nm("sequence_parameter_set"), None, 0, n, false, || t.sequence_parameter_set().map(|x| x.len()).map_err(|e| e.to_string()));
        mon.call(&nm("picture_parameter_set"), None, 0, n, false, || t.picture_parameter_set().map(|x| x.len()).map_err(|e| e.to_string()));
        mon.call(&nm("audio_profile"), None, 0, n, false, || t.audio_profile().map(|_| ()).map_err(|e| e.to_string()));
        let c = mon.call(&nm("Mp4Track::sample_count"), None, 0, n, false, || Ok(t.sample_count())).unwrap_or(0);
        counts.push((*id, c));
        ex.max_samples = ex.max_samples.max(c);
    }
    mon.call(&nm("sample_count(missing track)"), None, 0, n, false, || r.sample_count(0xDEAD_0001).map_err(|e| e.to_string()));
    mon.call(&nm("read_sample(missing track)"), Some(stats), CALL_OPS, n, false, || r.read_sample(0xDEAD_0001, 1).map(|_| ()).map_err(|e| e.to_string()));
    for (id, c) in counts {
        mon.call(&nm("sample_count"), None, 0, n, false, || r.sample_count(id).map_err(|e| e.to_string()));
        let ids_k = if light { let mut v = sample_ids(c); v.retain(|k| *k <= 8 || *k >= c.saturating_sub(1)); v } else { sample_ids(c) };
        for k in ids_k {
            mon.call(&nm("sample_offset"), Some(stats), CALL_OPS, n, false, || r.sample_offset(id, k).map_err(|e| e.to_string()));
            let got = mon.call(&nm("read_sample"), Some(stats), CALL_OPS + n, n, false, || r.read_sample(id, k).map(|s| s.map(|s| s.bytes.len() as u64).unwrap_or(0)).map_err(|e| e.to_string()));
            if let (Some(len), Some(last)) = (got, mon.recs.last_mut()) {
                last.sample_len = len;
            }
        }
    }
    if light {
        for moof in r.moofs.iter().take(2) {
            js!(mon, "moof", moof);
        }
    } else {
        render_all(mon, r);
    }
}

pub struct Context {
    /// opened init segments (canned + generated) to open the input against as a media segment
    pub inits: Vec<Vec<u8>>,
    /// media segments to open against the input when it opens
    pub segments: Vec<Vec<u8>>,
    pub timing: bool,
}

fn open_counting(bytes: &[u8], budget: u64) -> (CountingStream<Cursor<Vec<u8>>>, Rc<Stats>) {
    CountingStream::new(Cursor::new(bytes.to_vec()), budget)
}

pub fn exercise(bytes: &[u8], cx: &Context) -> Exercise {
    let mut ex = Exercise::default();
    let mut mon = Monitor { recs: Vec::new(), timing: cx.timing, default_n: bytes.len() as u64 };
    let n = bytes.len() as u64;
    let open_budget = OPS_PER_BYTE * n + OPS_CONST;
    // 1. open as a complete file
    let (stream, stats) = open_counting(bytes, open_budget);
    let opened = mon.call("read_header", Some(&stats), open_budget, n, true, move || Mp4Reader::read_header(stream, n).map_err(|e| e.to_string()));
    if opened.is_none() {
        ex.open_err = mon.recs.last().and_then(|r| r.err.clone());
    }
    if let Some(mut r) = opened {
        ex.opened = true;
        use_reader(&mut mon, &mut r, &stats, n, &mut ex, "");
        // 4. segments against this file
        for seg in &cx.segments {
            let sn = seg.len() as u64;
            let (s2, st2) = open_counting(seg, OPS_PER_BYTE * sn + OPS_CONST);
            let fr = mon.call("read_fragment_header(segment against input)", Some(&st2), OPS_PER_BYTE * sn + OPS_CONST, sn + n, true, || r.read_fragment_header(s2, sn).map_err(|e| e.to_string()));
            if let Some(mut fr) = fr {
                use_reader(&mut mon, &mut fr, &st2, sn, &mut ex, "seg:");
            }
        }
    }
    // 3. the input as a media segment against already opened init segments
    for init in &cx.inits {
        let il = init.len() as u64;
        let (is, ist) = open_counting(init, 0);
        let Ok(Ok(ir)) = guard(|| Mp4Reader::read_header(is, il)) else { continue };
        let _ = ist;
        let (s2, st2) = open_counting(bytes, open_budget);
        let fr = mon.call("read_fragment_header", Some(&st2), open_budget, n, true, || ir.read_fragment_header(s2, n).map_err(|e| e.to_string()));
        if let Some(mut fr) = fr {
            ex.frag_opened = true;
            use_reader(&mut mon, &mut fr, &st2, n, &mut ex, "frag:");
        }
    }
    ex.calls = mon.recs;
    ex
}
