//! mp4verif: property-based testing / fuzzing harness for alfg/mp4-rust (see /verif/DESIGN.md).
pub mod adv;
pub mod alloc;
pub mod boxes;
pub mod libbox;
pub mod driver;
pub mod engine;
pub mod gen;
pub mod io;
pub mod mux;
pub mod oracle;
pub mod props;
pub mod refmp4;

#[global_allocator]
static GLOBAL: alloc::Counting = alloc::Counting;
