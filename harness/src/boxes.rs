//! Box value space for C04/C05: a serialisable `Spec` per box type (values inside the wire-format
//! domain of DESIGN Appendix A), its reference encoding (refmp4 `Node`), and proptest strategies.
//! No `mp4` imports here: the conversion to library values lives in `libbox.rs`.

use crate::refmp4::*;
use proptest::prelude::*;
use serde::{Deserialize, Serialize};

#[derive(Clone, Debug, Serialize, Deserialize, PartialEq, Eq)]
pub struct AvcCS {
    pub config_version: u8,
    pub profile: u8,
    pub compat: u8,
    pub level: u8,
    pub length_size_minus_one: u8,
    pub sps: Vec<Vec<u8>>,
    pub pps: Vec<Vec<u8>>,
}

#[derive(Clone, Debug, Serialize, Deserialize, PartialEq, Eq)]
pub struct VisualS {
    pub data_ref: u16,
    pub width: u16,
    pub height: u16,
    pub hres: u32,
    pub vres: u32,
    pub frame_count: u16,
    pub depth: u16,
}

#[derive(Clone, Debug, Serialize, Deserialize, PartialEq, Eq)]
pub struct VpccS {
    pub version: u8,
    pub flags: u32,
    pub profile: u8,
    pub level: u8,
    pub bit_depth: u8,
    pub chroma: u8,
    pub full_range: bool,
    pub primaries: u8,
    pub transfer: u8,
    pub matrix: u8,
    pub init_size: u16,
}

#[derive(Clone, Debug, Serialize, Deserialize, PartialEq, Eq)]
pub struct Vp09S {
    pub version: u8,
    pub flags: u32,
    pub start_code: u16,
    pub data_ref: u16,
    pub reserved0: [u8; 16],
    pub width: u16,
    pub height: u16,
    pub hres: (u16, u16),
    pub vres: (u16, u16),
    pub reserved1: [u8; 4],
    pub frame_count: u16,
    pub compressor: Vec<u8>, // 32 bytes
    pub depth: u16,
    pub end_code: u16,
    pub vpcc: VpccS,
}

#[derive(Clone, Debug, Serialize, Deserialize, PartialEq, Eq)]
pub struct EsdsS {
    pub version: u8,
    pub flags: u32,
    pub es_id: u16,
    pub object_type_indication: u8,
    pub stream_type: u8,
    pub up_stream: bool,
    pub buffer_size_db: u32,
    pub max_bitrate: u32,
    pub avg_bitrate: u32,
    pub profile: u8,
    pub freq_index: u8,
    pub chan_conf: u8,
}

#[derive(Clone, Debug, Serialize, Deserialize, PartialEq, Eq)]
pub struct TfhdS {
    pub version: u8,
    pub extra_flags: u32, // duration-is-empty / default-base-is-moof / other unused bits
    pub track_id: u32,
    pub base: Option<u64>,
    pub sdi: Option<u32>,
    pub dur: Option<u32>,
    pub size: Option<u32>,
    pub sflags: Option<u32>,
}

#[derive(Clone, Debug, Serialize, Deserialize, PartialEq, Eq)]
pub struct TrunS {
    pub version: u8,
    pub extra_flags: u32,
    pub data_offset: Option<i32>,
    pub first_flags: Option<u32>,
    pub has_dur: bool,
    pub has_size: bool,
    pub has_flags: bool,
    pub has_cts: bool,
    /// per sample (duration, size, flags, cts)
    pub samples: Vec<(u32, u32, u32, u32)>,
}

#[derive(Clone, Debug, Serialize, Deserialize, PartialEq, Eq)]
pub struct ElstS {
    pub version: u8,
    pub flags: u32,
    pub entries: Vec<(u64, u64, u16, u16)>,
}

#[derive(Clone, Debug, Serialize, Deserialize, PartialEq, Eq)]
pub struct HeadS {
    pub version: u8,
    pub flags: u32,
    pub ctime: u64,
    pub mtime: u64,
    pub a: u32, // timescale (mvhd, mdhd) / track_id (tkhd)
    pub duration: u64,
}

#[derive(Clone, Debug, Serialize, Deserialize, PartialEq, Eq)]
pub struct DataS {
    pub type_code: u32, // 0, 1, 13, 21
    pub data: Vec<u8>,
}

#[derive(Clone, Debug, Serialize, Deserialize, PartialEq, Eq)]
pub enum MetaS {
    Mdir { ilst: Option<Vec<(u8, DataS)>> }, // key index 0..4 (title, year, poster, summary), distinct
    Unknown { hdlr_version: u8, hdlr_flags: u32, handler: Cc, name: String, children: Vec<(Cc, Vec<u8>)> },
}

#[derive(Clone, Debug, Serialize, Deserialize, PartialEq, Eq)]
pub struct StblS {
    pub stsd: Box<Spec>,
    pub stts: Box<Spec>,
    pub ctts: Option<Box<Spec>>,
    pub stss: Option<Box<Spec>>,
    pub stsc: Box<Spec>,
    pub stsz: Box<Spec>,
    pub co: Box<Spec>, // Stco or Co64
}

#[derive(Clone, Debug, Serialize, Deserialize, PartialEq, Eq)]
pub enum Spec {
    Ftyp { major: Cc, minor: u32, compat: Vec<Cc> },
    Mvhd { h: HeadS, rate: u32, volume: u16, matrix: [i32; 9], next_track_id: u32 },
    Tkhd { h: HeadS, layer: u16, alt_group: u16, volume: u16, matrix: [i32; 9], width: u32, height: u32 },
    Mdhd { h: HeadS, lang: [u8; 3] },
    Hdlr { version: u8, flags: u32, handler: Cc, name: String },
    Elst(ElstS),
    Edts { elst: Option<ElstS> },
    Vmhd { version: u8, flags: u32, graphics_mode: u16, op: [u16; 3] },
    Smhd { version: u8, flags: u32, balance: i16 },
    /// dref fields (version, flags) + url fields (version, flags, location)
    Dinf { dref_version: u8, dref_flags: u32, url_version: u8, url_flags: u32, location: String },
    Stts { version: u8, flags: u32, entries: Vec<(u32, u32)> },
    Ctts { version: u8, flags: u32, entries: Vec<(u32, i32)> },
    Stss { version: u8, flags: u32, entries: Vec<u32> },
    Stsc { version: u8, flags: u32, entries: Vec<(u32, u32, u32)> },
    Stsz { version: u8, flags: u32, sample_size: u32, sample_count: u32, sizes: Vec<u32> },
    Stco { version: u8, flags: u32, entries: Vec<u32> },
    Co64 { version: u8, flags: u32, entries: Vec<u64> },
    AvcC(AvcCS),
    Avc1 { v: VisualS, avcc: AvcCS },
    HvcC(HvcC),
    Hev1 { v: VisualS, hvcc: HvcC },
    VpcC(VpccS),
    Vp09(Vp09S),
    Esds(EsdsS),
    Mp4a { data_ref: u16, channelcount: u16, samplesize: u16, samplerate: u32, esds: Option<EsdsS> },
    Tx3g { data_ref: u16, display_flags: u32, hj: i8, vj: i8, bg: [u8; 4], box_record: [i16; 4], style: [u8; 12] },
    Stsd { version: u8, flags: u32, entry: Box<Spec> },
    Stbl(StblS),
    Minf { vmhd: Option<Box<Spec>>, smhd: Option<Box<Spec>>, stbl: Box<Spec> },
    Mdia { mdhd: Box<Spec>, hdlr: Box<Spec>, minf: Box<Spec> },
    Trak { tkhd: Box<Spec>, edts: Option<Box<Spec>>, meta: Option<Box<Spec>>, mdia: Box<Spec> },
    Mehd { version: u8, flags: u32, duration: u64 },
    Trex { version: u8, flags: u32, track_id: u32, sdi: u32, dur: u32, size: u32, sflags: u32 },
    Mvex { mehd: Option<Box<Spec>>, trex: Box<Spec> },
    Moov { mvhd: Box<Spec>, meta: Option<Box<Spec>>, mvex: Option<Box<Spec>>, traks: Vec<Spec>, udta: Option<Box<Spec>> },
    Mfhd { version: u8, flags: u32, seq: u32 },
    Tfhd(TfhdS),
    Tfdt { version: u8, flags: u32, time: u64 },
    Trun(TrunS),
    Traf { tfhd: Box<Spec>, tfdt: Option<Box<Spec>>, trun: Option<Box<Spec>> },
    Moof { mfhd: Box<Spec>, trafs: Vec<Spec> },
    Emsg { version: u8, flags: u32, timescale: u32, ptime: u64, pdelta: u32, event_duration: u32, id: u32, scheme: String, value: String, data: Vec<u8> },
    Data(DataS),
    Ilst { items: Vec<(u8, DataS)> },
    Meta(MetaS),
    Udta { meta: Option<Box<Spec>> },
}

pub const KINDS: [&str; 46] = [
    "ftyp", "mvhd", "tkhd", "mdhd", "hdlr", "elst", "edts", "vmhd", "smhd", "dinf", "stts", "ctts", "stss", "stsc", "stsz", "stco", "co64", "avcC", "avc1", "hvcC", "hev1", "vpcC", "vp09", "esds", "mp4a", "tx3g", "stsd", "stbl", "minf", "mdia", "trak", "mehd", "trex", "mvex", "moov", "mfhd", "tfhd", "tfdt", "trun", "traf", "moof", "emsg", "data", "ilst", "meta", "udta",
];

pub const ITEM_CODES: [Cc; 4] = [[0xa9, b'n', b'a', b'm'], [0xa9, b'd', b'a', b'y'], *b"covr", *b"desc"];

impl Spec {
    pub fn kind(&self) -> &'static str {
        match self {
            Spec::Ftyp { .. } => "ftyp",
            Spec::Mvhd { .. } => "mvhd",
            Spec::Tkhd { .. } => "tkhd",
            Spec::Mdhd { .. } => "mdhd",
            Spec::Hdlr { .. } => "hdlr",
            Spec::Elst(_) => "elst",
            Spec::Edts { .. } => "edts",
            Spec::Vmhd { .. } => "vmhd",
            Spec::Smhd { .. } => "smhd",
            Spec::Dinf { .. } => "dinf",
            Spec::Stts { .. } => "stts",
            Spec::Ctts { .. } => "ctts",
            Spec::Stss { .. } => "stss",
            Spec::Stsc { .. } => "stsc",
            Spec::Stsz { .. } => "stsz",
            Spec::Stco { .. } => "stco",
            Spec::Co64 { .. } => "co64",
            Spec::AvcC(_) => "avcC",
            Spec::Avc1 { .. } => "avc1",
            Spec::HvcC(_) => "hvcC",
            Spec::Hev1 { .. } => "hev1",
            Spec::VpcC(_) => "vpcC",
            Spec::Vp09(_) => "vp09",
            Spec::Esds(_) => "esds",
            Spec::Mp4a { .. } => "mp4a",
            Spec::Tx3g { .. } => "tx3g",
            Spec::Stsd { .. } => "stsd",
            Spec::Stbl(_) => "stbl",
            Spec::Minf { .. } => "minf",
            Spec::Mdia { .. } => "mdia",
            Spec::Trak { .. } => "trak",
            Spec::Mehd { .. } => "mehd",
            Spec::Trex { .. } => "trex",
            Spec::Mvex { .. } => "mvex",
            Spec::Moov { .. } => "moov",
            Spec::Mfhd { .. } => "mfhd",
            Spec::Tfhd(_) => "tfhd",
            Spec::Tfdt { .. } => "tfdt",
            Spec::Trun(_) => "trun",
            Spec::Traf { .. } => "traf",
            Spec::Moof { .. } => "moof",
            Spec::Emsg { .. } => "emsg",
            Spec::Data(_) => "data",
            Spec::Ilst { .. } => "ilst",
            Spec::Meta(_) => "meta",
            Spec::Udta { .. } => "udta",
        }
    }

    /// shape descriptor: version / optional parts / list lengths (no values)
    pub fn shape(&self) -> String {
        fn o<T>(x: &Option<T>) -> char {
            if x.is_some() {
                '1'
            } else {
                '0'
            }
        }
        match self {
            Spec::Ftyp { compat, .. } => format!("brands={}", compat.len().min(3)),
            Spec::Mvhd { h, .. } | Spec::Tkhd { h, .. } | Spec::Mdhd { h, .. } => format!("v{}", h.version),
            Spec::Hdlr { name, .. } => format!("name={}", !name.is_empty()),
            Spec::Elst(e) => format!("v{} n={}", e.version, e.entries.len().min(3)),
            Spec::Edts { elst } => format!("elst={}", o(elst)),
            Spec::Dinf { location, .. } => format!("loc={}", !location.is_empty()),
            Spec::Stts { entries, .. } => format!("n={}", entries.len().min(3)),
            Spec::Ctts { entries, .. } => format!("n={}", entries.len().min(3)),
            Spec::Stss { entries, .. } => format!("n={}", entries.len().min(3)),
            Spec::Stsc { entries, .. } => format!("n={}", entries.len().min(3)),
            Spec::Stco { entries, .. } => format!("n={}", entries.len().min(3)),
            Spec::Co64 { entries, .. } => format!("n={}", entries.len().min(3)),
            Spec::Stsz { sample_size, sizes, .. } => format!("const={} n={}", *sample_size > 0, sizes.len().min(3)),
            Spec::AvcC(a) | Spec::Avc1 { avcc: a, .. } => format!("sps={} pps={}", a.sps.len().min(3), a.pps.len().min(3)),
            Spec::HvcC(h) | Spec::Hev1 { hvcc: h, .. } => format!("arrays={} nalus={}", h.arrays.len().min(3), h.arrays.iter().map(|a| a.2.len()).max().unwrap_or(0).min(3)),
            Spec::Esds(e) => format!("aot-escaped={}", e.profile >= 32),
            Spec::Mp4a { esds, .. } => format!("esds={} esc={}", o(esds), esds.as_ref().map(|e| e.profile >= 32).unwrap_or(false)),
            Spec::Stsd { entry, .. } => format!("entry={}", entry.kind()),
            Spec::Stbl(s) => format!("ctts={} stss={} co={} entry={}", o(&s.ctts), o(&s.stss), s.co.kind(), s.stsd.shape()),
            Spec::Minf { vmhd, smhd, .. } => format!("vmhd={} smhd={}", o(vmhd), o(smhd)),
            Spec::Trak { edts, meta, .. } => format!("edts={} meta={}", o(edts), o(meta)),
            Spec::Mehd { version, .. } | Spec::Tfdt { version, .. } => format!("v{}", version),
            Spec::Mvex { mehd, .. } => format!("mehd={}", o(mehd)),
            Spec::Moov { meta, mvex, traks, udta, .. } => format!("meta={} mvex={} traks={} udta={}", o(meta), o(mvex), traks.len().min(3), o(udta)),
            Spec::Tfhd(t) => format!("b{}s{}d{}z{}f{} x{:x}", o(&t.base), o(&t.sdi), o(&t.dur), o(&t.size), o(&t.sflags), t.extra_flags),
            Spec::Trun(t) => format!("o{}f{} d{}s{}f{}c{} n={}", o(&t.data_offset), o(&t.first_flags), t.has_dur as u8, t.has_size as u8, t.has_flags as u8, t.has_cts as u8, t.samples.len().min(3)),
            Spec::Traf { tfdt, trun, .. } => format!("tfdt={} trun={}", o(tfdt), o(trun)),
            Spec::Moof { trafs, .. } => format!("trafs={}", trafs.len().min(3)),
            Spec::Emsg { version, data, .. } => format!("v{} data={}", version, !data.is_empty()),
            Spec::Data(d) => format!("type={} len={}", d.type_code, d.data.len().min(2)),
            Spec::Ilst { items } => format!("items={:?}", items.iter().map(|i| i.0).collect::<Vec<_>>()),
            Spec::Meta(MetaS::Mdir { ilst }) => format!("mdir ilst={}", o(ilst)),
            Spec::Meta(MetaS::Unknown { children, .. }) => format!("unknown children={}", children.len().min(3)),
            Spec::Udta { meta } => format!("meta={}", o(meta)),
            _ => String::new(),
        }
    }

    /// non-trivial shape: an optional part present or a list of length >= 1 (or version 1)
    pub fn nontrivial_shape(&self) -> bool {
        let s = self.shape();
        s.contains("=1") || s.contains("n=1") || s.contains("n=2") || s.contains("n=3") || s.contains("v1") || s.contains("true") || s.contains("brands=1") || s.contains("brands=2") || s.contains("brands=3") || s.contains("1") || matches!(self, Spec::Vmhd { .. } | Spec::Smhd { .. } | Spec::Mfhd { .. } | Spec::Trex { .. } | Spec::Tx3g { .. } | Spec::VpcC(_) | Spec::Vp09(_))
    }

    pub fn fourcc(&self) -> Cc {
        let k = self.kind();
        cc(k)
    }

    /// reference encoding
    pub fn node(&self) -> Node {
        match self {
            Spec::Ftyp { major, minor, compat } => Node::leaf("ftyp", enc_ftyp(*major, *minor, compat)),
            Spec::Mvhd { h, rate, volume, matrix, next_track_id } => Node::leaf("mvhd", enc_mvhd(h.version, h.flags, h.ctime, h.mtime, h.a, h.duration, *rate, *volume, matrix, *next_track_id)),
            Spec::Tkhd { h, layer, alt_group, volume, matrix, width, height } => Node::leaf("tkhd", enc_tkhd(h.version, h.flags, h.ctime, h.mtime, h.a, h.duration, *layer, *alt_group, *volume, matrix, *width, *height)),
            Spec::Mdhd { h, lang } => Node::leaf("mdhd", enc_mdhd(h.version, h.flags, h.ctime, h.mtime, h.a, h.duration, lang)),
            Spec::Hdlr { version, flags, handler, name } => Node::leaf("hdlr", enc_hdlr(*version, *flags, *handler, name)),
            Spec::Elst(e) => Node::leaf("elst", enc_elst(e.version, e.flags, &e.entries)),
            Spec::Edts { elst } => Node::container("edts", elst.iter().map(|e| Node::leaf("elst", enc_elst(e.version, e.flags, &e.entries))).collect()),
            Spec::Vmhd { version, flags, graphics_mode, op } => Node::leaf("vmhd", enc_vmhd(*version, *flags, *graphics_mode, *op)),
            Spec::Smhd { version, flags, balance } => Node::leaf("smhd", enc_smhd(*version, *flags, *balance)),
            Spec::Dinf { dref_version, dref_flags, url_version, url_flags, location } => Node::container("dinf", vec![node_dref(*dref_version, *dref_flags, vec![Node::leaf("url ", enc_url(*url_version, *url_flags, location))])]),
            Spec::Stts { version, flags, entries } => Node::leaf("stts", enc_stts(*version, *flags, entries)),
            Spec::Ctts { version, flags, entries } => Node::leaf("ctts", enc_ctts(*version, *flags, entries)),
            Spec::Stss { version, flags, entries } => Node::leaf("stss", enc_stss(*version, *flags, entries)),
            Spec::Stsc { version, flags, entries } => Node::leaf("stsc", enc_stsc(*version, *flags, entries)),
            Spec::Stsz { version, flags, sample_size, sample_count, sizes } => Node::leaf("stsz", enc_stsz(*version, *flags, *sample_size, *sample_count, sizes)),
            Spec::Stco { version, flags, entries } => Node::leaf("stco", enc_stco(*version, *flags, entries)),
            Spec::Co64 { version, flags, entries } => Node::leaf("co64", enc_co64(*version, *flags, entries)),
            Spec::AvcC(a) => avcc_node(a),
            Spec::Avc1 { v, avcc } => Node::mixed("avc1", visual(v), vec![avcc_node(avcc)]),
            Spec::HvcC(h) => Node::leaf("hvcC", enc_hvcc(h, true)),
            Spec::Hev1 { v, hvcc } => Node::mixed("hev1", visual(v), vec![Node::leaf("hvcC", enc_hvcc(hvcc, true))]),
            Spec::VpcC(p) => vpcc_node(p),
            Spec::Vp09(p) => {
                let mut pre = [0u8; 6];
                pre[0] = p.version;
                pre[1..4].copy_from_slice(&p.flags.to_be_bytes()[1..]);
                pre[4..6].copy_from_slice(&p.start_code.to_be_bytes());
                let mut comp = [0u8; 32];
                comp.copy_from_slice(&p.compressor[..32]);
                let prefix = enc_visual_entry(&pre, p.data_ref, &p.reserved0, p.width, p.height, ((p.hres.0 as u32) << 16) | p.hres.1 as u32, ((p.vres.0 as u32) << 16) | p.vres.1 as u32, &p.reserved1, p.frame_count, &comp, p.depth, p.end_code);
                Node::mixed("vp09", prefix, vec![vpcc_node(&p.vpcc)])
            }
            Spec::Esds(e) => esds_node(e, 0),
            Spec::Mp4a { data_ref, channelcount, samplesize, samplerate, esds } => Node::mixed("mp4a", enc_audio_entry(*data_ref, *channelcount, *samplesize, *samplerate), esds.iter().map(|e| esds_node(e, 0)).collect()),
            Spec::Tx3g { data_ref, display_flags, hj, vj, bg, box_record, style } => Node::leaf("tx3g", enc_tx3g(*data_ref, *display_flags, *hj, *vj, *bg, *box_record, style)),
            Spec::Stsd { version, flags, entry } => {
                let mut w = W::new();
                w.full(*version, *flags).u32(1);
                Node::mixed("stsd", w.done(), vec![entry.node()])
            }
            Spec::Stbl(s) => {
                let mut k = vec![s.stsd.node(), s.stts.node()];
                if let Some(c) = &s.ctts {
                    k.push(c.node());
                }
                if let Some(c) = &s.stss {
                    k.push(c.node());
                }
                k.push(s.stsc.node());
                k.push(s.stsz.node());
                k.push(s.co.node());
                Node::container("stbl", k)
            }
            Spec::Minf { vmhd, smhd, stbl } => {
                let mut k = Vec::new();
                if let Some(v) = vmhd {
                    k.push(v.node());
                }
                if let Some(v) = smhd {
                    k.push(v.node());
                }
                k.push(node_dinf_default());
                k.push(stbl.node());
                Node::container("minf", k)
            }
            Spec::Mdia { mdhd, hdlr, minf } => Node::container("mdia", vec![mdhd.node(), hdlr.node(), minf.node()]),
            Spec::Trak { tkhd, edts, meta, mdia } => {
                let mut k = vec![tkhd.node()];
                if let Some(e) = edts {
                    k.push(e.node());
                }
                if let Some(m) = meta {
                    k.push(m.node());
                }
                k.push(mdia.node());
                Node::container("trak", k)
            }
            Spec::Mehd { version, flags, duration } => Node::leaf("mehd", enc_mehd(*version, *flags, *duration)),
            Spec::Trex { version, flags, track_id, sdi, dur, size, sflags } => Node::leaf("trex", enc_trex(*version, *flags, *track_id, *sdi, *dur, *size, *sflags)),
            Spec::Mvex { mehd, trex } => {
                let mut k = Vec::new();
                if let Some(m) = mehd {
                    k.push(m.node());
                }
                k.push(trex.node());
                Node::container("mvex", k)
            }
            Spec::Moov { mvhd, meta, mvex, traks, udta } => {
                let mut k = vec![mvhd.node()];
                for t in traks {
                    k.push(t.node());
                }
                if let Some(m) = mvex {
                    k.push(m.node());
                }
                if let Some(m) = meta {
                    k.push(m.node());
                }
                if let Some(u) = udta {
                    k.push(u.node());
                }
                Node::container("moov", k)
            }
            Spec::Mfhd { version, flags, seq } => Node::leaf("mfhd", enc_mfhd(*version, *flags, *seq)),
            Spec::Tfhd(t) => Node::leaf("tfhd", enc_tfhd(t.version, tfhd_flags(t), t.track_id, t.base, t.sdi, t.dur, t.size, t.sflags)),
            Spec::Tfdt { version, flags, time } => Node::leaf("tfdt", enc_tfdt(*version, *flags, *time)),
            Spec::Trun(t) => Node::leaf("trun", enc_trun(t.version, trun_flags(t), t.samples.len() as u32, t.data_offset, t.first_flags, &t.samples)),
            Spec::Traf { tfhd, tfdt, trun } => {
                let mut k = vec![tfhd.node()];
                if let Some(x) = tfdt {
                    k.push(x.node());
                }
                if let Some(x) = trun {
                    k.push(x.node());
                }
                Node::container("traf", k)
            }
            Spec::Moof { mfhd, trafs } => {
                let mut k = vec![mfhd.node()];
                for t in trafs {
                    k.push(t.node());
                }
                Node::container("moof", k)
            }
            Spec::Emsg { version, flags, timescale, ptime, pdelta, event_duration, id, scheme, value, data } => Node::leaf("emsg", enc_emsg(*version, *flags, *timescale, *ptime, *pdelta, *event_duration, *id, scheme, value, data)),
            Spec::Data(d) => Node::leaf("data", enc_data(d.type_code, 0, &d.data)),
            Spec::Ilst { items } => Node::container("ilst", items.iter().map(|(k, d)| node_ilst_item(ITEM_CODES[*k as usize], d.type_code, &d.data)).collect()),
            Spec::Meta(MetaS::Mdir { ilst }) => {
                let mut k = vec![Node::leaf("hdlr", enc_hdlr(0, 0, *b"mdir", ""))];
                if let Some(items) = ilst {
                    k.push(Spec::Ilst { items: items.clone() }.node());
                }
                Node::mixed("meta", vec![0, 0, 0, 0], k)
            }
            Spec::Meta(MetaS::Unknown { hdlr_version, hdlr_flags, handler, name, children }) => {
                let mut k = vec![Node::leaf("hdlr", enc_hdlr(*hdlr_version, *hdlr_flags, *handler, name))];
                for (t, p) in children {
                    k.push(Node::leaf_cc(*t, p.clone()));
                }
                Node::mixed("meta", vec![0, 0, 0, 0], k)
            }
            Spec::Udta { meta } => Node::container("udta", meta.iter().map(|m| m.node()).collect()),
        }
    }
}

pub fn tfhd_flags(t: &TfhdS) -> u32 {
    (t.extra_flags & !0x3b) | (t.base.is_some() as u32) | ((t.sdi.is_some() as u32) << 1) | ((t.dur.is_some() as u32) << 3) | ((t.size.is_some() as u32) << 4) | ((t.sflags.is_some() as u32) << 5)
}

pub fn trun_flags(t: &TrunS) -> u32 {
    (t.extra_flags & !0xf05) | (t.data_offset.is_some() as u32) | ((t.first_flags.is_some() as u32) << 2) | ((t.has_dur as u32) << 8) | ((t.has_size as u32) << 9) | ((t.has_flags as u32) << 10) | ((t.has_cts as u32) << 11)
}

fn visual(v: &VisualS) -> Vec<u8> {
    enc_visual_entry_std(v.data_ref, v.width, v.height, v.hres, v.vres, v.frame_count, v.depth)
}

fn avcc_node(a: &AvcCS) -> Node {
    Node::leaf("avcC", enc_avcc(a.config_version, a.profile, a.compat, a.level, a.length_size_minus_one, &a.sps, &a.pps))
}

fn vpcc_node(p: &VpccS) -> Node {
    Node::leaf("vpcC", enc_vpcc(p.version, p.flags, p.profile, p.level, p.bit_depth, p.chroma, p.full_range, p.primaries, p.transfer, p.matrix, p.init_size, &[]))
}

pub fn esds_of(e: &EsdsS, len_pad: usize) -> Esds {
    Esds {
        version: e.version,
        flags: e.flags,
        es_id: e.es_id,
        object_type_indication: e.object_type_indication,
        stream_type: e.stream_type,
        up_stream: e.up_stream,
        buffer_size_db: e.buffer_size_db,
        max_bitrate: e.max_bitrate,
        avg_bitrate: e.avg_bitrate,
        asc: enc_asc(e.profile, e.freq_index, 0, e.chan_conf),
        len_pad: len_pad & 0xff,
        priority: (len_pad >> 8) as u8,
    }
}

pub fn esds_node(e: &EsdsS, len_pad: usize) -> Node {
    Node::leaf("esds", enc_esds(&esds_of(e, len_pad)))
}

// ------------------------------------------------------------------------------------------
// strategies
// ------------------------------------------------------------------------------------------

/// distinct, mostly non-zero values: zeros and repeats hide swapped fields
fn u8v() -> impl Strategy<Value = u8> {
    prop_oneof![1 => Just(0u8), 1 => Just(255u8), 8 => 1u8..=254]
}
fn u16v() -> impl Strategy<Value = u16> {
    prop_oneof![1 => Just(0u16), 1 => Just(u16::MAX), 2 => 1u16..300, 6 => any::<u16>()]
}
fn u32v() -> impl Strategy<Value = u32> {
    prop_oneof![1 => Just(0u32), 1 => Just(u32::MAX), 2 => 1u32..70000, 6 => any::<u32>()]
}
fn u64v() -> impl Strategy<Value = u64> {
    prop_oneof![1 => Just(0u64), 1 => Just(u64::MAX), 2 => 1u64..70000, 2 => (1u64 << 32)..(1u64 << 33), 4 => any::<u64>()]
}
fn flags24() -> impl Strategy<Value = u32> {
    prop_oneof![2 => Just(0u32), 1 => Just(1u32), 1 => Just(0xff_ffffu32), 4 => 0u32..0x100_0000]
}
fn ver01() -> impl Strategy<Value = u8> {
    prop_oneof![Just(0u8), Just(1u8)]
}
fn anyver() -> impl Strategy<Value = u8> {
    prop_oneof![3 => Just(0u8), 1 => Just(1u8), 1 => any::<u8>()]
}
/// four-character codes: well-known ones, near misses of the codes the library acts upon (case
/// variants, a trailing blank, one flipped bit) and arbitrary bytes
fn cc_any() -> impl Strategy<Value = Cc> {
    let known: [&[u8; 4]; 10] = [b"isom", b"mp42", b"vide", b"soun", b"sbtl", b"mdir", b"text", b"qt  ", b"url ", b"mdta"];
    prop_oneof![
        4 => (0usize..10).prop_map(move |i| *known[i]),
        3 => ((0usize..10), 0u8..16, 0u8..3).prop_map(move |(i, mask, how)| {
            let mut c = *known[i];
            match how {
                0 => {
                    for (j, b) in c.iter_mut().enumerate() {
                        if mask >> j & 1 == 1 {
                            *b = b.to_ascii_uppercase();
                        }
                    }
                }
                1 => c[(mask % 4) as usize] ^= 1 << (mask / 4),
                _ => c[3] = b' ',
            }
            c
        }),
        3 => any::<[u8; 4]>(),
    ]
}
pub fn text() -> impl Strategy<Value = String> {
    prop_oneof![4 => Just(String::new()), 8 => "[ -~]{1,12}", 4 => "[^\\x00]{1,6}", 1 => "[ -~]{60,300}", 2 => counted_lookalike(), 1 => dict_text()]
}

/// String literals of the library's own sources (harvested from the working tree at run time),
/// grouped by source file: the magic values the code compares its input with.
pub fn source_literals() -> &'static Vec<Vec<String>> {
    static LITS: std::sync::OnceLock<Vec<Vec<String>>> = std::sync::OnceLock::new();
    // (the first element of every group is the file stem, e.g. "emsg" for mp4box/emsg.rs)
    LITS.get_or_init(|| {
        fn walk(dir: &std::path::Path, out: &mut Vec<std::path::PathBuf>) {
            if let Ok(rd) = std::fs::read_dir(dir) {
                let mut es: Vec<_> = rd.filter_map(|e| e.ok()).map(|e| e.path()).collect();
                es.sort();
                for p in es {
                    if p.is_dir() {
                        walk(&p, out);
                    } else if p.extension().map(|x| x == "rs").unwrap_or(false) {
                        out.push(p);
                    }
                }
            }
        }
        let mut files = Vec::new();
        walk(std::path::Path::new(env!("VERIF_REPO_SRC")), &mut files);
        let mut groups = Vec::new();
        for f in files {
            let Ok(src) = std::fs::read_to_string(&f) else { continue };
            // only the part before the unit tests
            let src = src.split("#[cfg(test)]").next().unwrap_or("");
            let mut lits: Vec<String> = Vec::new();
            let b = src.as_bytes();
            let mut i = 0;
            while i < b.len() {
                if b[i] == b'"' {
                    let mut j = i + 1;
                    let mut ok = true;
                    while j < b.len() && b[j] != b'"' {
                        if b[j] == b'\\' || b[j] == b'\n' {
                            ok = false;
                        }
                        j += 1;
                    }
                    if ok && j < b.len() && j - i - 1 >= 2 && j - i - 1 <= 80 {
                        if let Ok(t) = std::str::from_utf8(&b[i + 1..j]) {
                            if !t.contains('{') && !lits.iter().any(|x| x == t) {
                                lits.push(t.to_string());
                            }
                        }
                    }
                    i = j + 1;
                } else {
                    i += 1;
                }
            }
            if !lits.is_empty() {
                let stem = f.file_stem().map(|x| x.to_string_lossy().to_string()).unwrap_or_default();
                lits.insert(0, stem);
                groups.push(lits);
            }
        }
        if groups.is_empty() {
            groups.push(vec!["isom".to_string()]);
        }
        groups
    })
}

pub fn dict_text() -> impl Strategy<Value = String> {
    (any::<u16>(), any::<u16>()).prop_map(|(g, i)| {
        let lits = source_literals();
        let grp = &lits[(g as usize * lits.len()) >> 16];
        grp[(i as usize * grp.len()) >> 16].clone()
    })
}

/// (text, text, bytes) whose magic values come from ONE source file: code that recognises a format
/// by a URI in one field and a signature in another needs both at once
/// `kind`: the group of the source file named after the box kind is preferred (3 draws in 4)
pub fn dict_triple(kind: &'static str) -> impl Strategy<Value = (String, String, Vec<u8>)> {
    (any::<u16>(), any::<[u16; 3]>(), prop_oneof![1 => Just(Vec::new()), 4 => (0usize..16).prop_map(|n| vec![0u8; n]), 2 => prop::collection::vec(any::<u8>(), 0..16), 1 => (4usize..16).prop_map(|n| (0..n).map(|k| (k % 4) as u8).collect::<Vec<u8>>())], 0u8..4).prop_map(move |(g, ix, tail, how)| {
        let lits = source_literals();
        let own = lits.iter().position(|grp| grp[0] == kind);
        let grp = match own {
            Some(i) if g % 8 != 0 => &lits[i],
            _ => &lits[(g as usize * lits.len()) >> 16],
        };
        let pick = |x: u16| grp[(x as usize * grp.len()) >> 16].clone();
        let a = pick(ix[0]);
        let b = if how & 1 == 0 { String::new() } else { pick(ix[1]) };
        let mut data = pick(ix[2]).into_bytes();
        data.extend_from_slice(&tail);
        (a, b, data)
    })
}

/// Strings that look like a counted (Pascal / QuickTime) string: the first byte equals the number
/// of bytes that follow it, give or take a terminator. Both with an ASCII first character and
/// with a multi-byte first character (whose lead byte then is the "count"): a decoder that sniffs
/// for counted strings must not mangle or choke on them.
pub fn counted_lookalike() -> impl Strategy<Value = String> {
    let mk = |first: char, delta: usize| {
        let mut b = [0u8; 4];
        let enc = first.encode_utf8(&mut b);
        let lead = enc.as_bytes()[0] as usize;
        let follow_in_char = enc.len() - 1;
        let mut s = String::new();
        s.push(first);
        let fill = lead.saturating_sub(follow_in_char).saturating_sub(delta);
        for i in 0..fill {
            s.push((b'a' + (i % 26) as u8) as char);
        }
        s
    };
    prop_oneof![
        ((0x21u32..0x7f), 0usize..3).prop_map(move |(c, d)| mk(char::from_u32(c).unwrap(), d)),
        ((0xa0u32..0x800), 0usize..3).prop_map(move |(c, d)| mk(char::from_u32(c).unwrap(), d)),
        (prop_oneof![Just(0x20acu32), Just(0x3042u32), Just(0x1f600u32)], 0usize..3).prop_map(move |(c, d)| mk(char::from_u32(c).unwrap(), d)),
    ]
}
fn bytes(max: usize) -> impl Strategy<Value = Vec<u8>> {
    prop::collection::vec(any::<u8>(), 0..=max)
}
fn matrix() -> impl Strategy<Value = [i32; 9]> {
    prop_oneof![1 => Just(UNITY_MATRIX), 3 => any::<[i32; 9]>()]
}

fn head(track: bool) -> impl Strategy<Value = HeadS> {
    let _ = track;
    (ver01(), flags24(), u64v(), u64v(), u32v(), u64v()).prop_map(|(version, flags, ctime, mtime, a, duration)| {
        let clip = |x: u64| if version == 0 { x & 0xffff_ffff } else { x };
        HeadS { version, flags, ctime: clip(ctime), mtime: clip(mtime), a, duration: clip(duration) }
    })
}

fn elst_s(max: usize) -> impl Strategy<Value = ElstS> {
    (ver01(), flags24(), list((u64v(), u64v(), u16v(), u16v()), max)).prop_map(|(version, flags, entries)| {
        let clip = |x: u64| if version == 0 { x & 0xffff_ffff } else { x };
        ElstS { version, flags, entries: entries.into_iter().map(|e| (clip(e.0), clip(e.1), e.2, e.3)).collect() }
    })
}

/// a parameter set: arbitrary bytes, or - as when a caller passes units straight from an Annex B
/// elementary stream - a start code, a NAL header of a plausible type, and a few bytes
fn nal(n: usize) -> impl Strategy<Value = Vec<u8>> {
    prop_oneof![
        4 => bytes(n).boxed(),
        1 => (any::<bool>(), prop_oneof![Just(0x67u8), Just(0x68), Just(0x27), Just(0x28), Just(0x6d), Just(0x65), Just(0x41), Just(0x06), Just(0x09), Just(0x40), Just(0x42), Just(0x44), any::<u8>()], bytes(n))
            .prop_map(|(four, hdr, rest)| {
                let mut v = if four { vec![0, 0, 0, 1] } else { vec![0, 0, 1] };
                v.push(hdr);
                v.extend(rest);
                v
            })
            .boxed(),
    ]
}

fn avcc_s(max: usize) -> impl Strategy<Value = AvcCS> {
    (u8v(), u8v(), u8v(), u8v(), 0u8..4, prop::collection::vec(nal(9), 0..=max), prop::collection::vec(nal(9), 0..=max)).prop_map(|(config_version, profile, compat, level, length_size_minus_one, sps, pps)| AvcCS { config_version, profile, compat, level, length_size_minus_one, sps, pps })
}

fn visual_s() -> impl Strategy<Value = VisualS> {
    (u16v(), u16v(), u16v(), u32v(), u32v(), u16v(), u16v()).prop_map(|(data_ref, width, height, hres, vres, frame_count, depth)| VisualS { data_ref, width, height, hres, vres, frame_count, depth })
}

fn hvcc_s(max: usize) -> impl Strategy<Value = HvcC> {
    (
        (u8v(), 0u8..4, any::<bool>(), 0u8..32, u32v(), u64v(), u8v()),
        (0u16..4096, 0u8..4, 0u8..4, 0u8..8, 0u8..8, u16v()),
        (0u8..4, 0u8..8, any::<bool>(), 0u8..4),
        prop::collection::vec((any::<bool>(), 0u8..64, prop::collection::vec(nal(7), 0..=max)), 0..=max),
    )
        .prop_map(|((configuration_version, general_profile_space, general_tier_flag, general_profile_idc, compat, constraint, general_level_idc), (min_spatial_segmentation_idc, parallelism_type, chroma_format_idc, bit_depth_luma_minus8, bit_depth_chroma_minus8, avg_frame_rate), (constant_frame_rate, num_temporal_layers, temporal_id_nested, length_size_minus_one), arrays)| HvcC {
            configuration_version,
            general_profile_space,
            general_tier_flag,
            general_profile_idc,
            general_profile_compatibility_flags: compat,
            general_constraint_indicator_flags: constraint & 0xffff_ffff_ffff,
            general_level_idc,
            min_spatial_segmentation_idc,
            parallelism_type,
            chroma_format_idc,
            bit_depth_luma_minus8,
            bit_depth_chroma_minus8,
            avg_frame_rate,
            constant_frame_rate,
            num_temporal_layers,
            temporal_id_nested,
            length_size_minus_one,
            arrays,
        })
}

fn vpcc_s() -> impl Strategy<Value = VpccS> {
    ((anyver(), flags24(), u8v(), u8v(), 0u8..16, 0u8..8), (any::<bool>(), u8v(), u8v(), u8v(), u16v())).prop_map(|((version, flags, profile, level, bit_depth, chroma), (full_range, primaries, transfer, matrix, init_size))| VpccS { version, flags, profile, level, bit_depth, chroma, full_range, primaries, transfer, matrix, init_size })
}

fn vp09_s() -> impl Strategy<Value = Vp09S> {
    ((anyver(), flags24(), u16v(), u16v(), any::<[u8; 16]>(), u16v(), u16v()), ((u16v(), u16v()), (u16v(), u16v()), any::<[u8; 4]>(), u16v(), prop::collection::vec(any::<u8>(), 32..=32), u16v(), u16v()), vpcc_s()).prop_map(|((version, flags, start_code, data_ref, reserved0, width, height), (hres, vres, reserved1, frame_count, compressor, depth, end_code), vpcc)| Vp09S { version, flags, start_code, data_ref, reserved0, width, height, hres, vres, reserved1, frame_count, compressor, depth, end_code, vpcc })
}

pub fn esds_s() -> impl Strategy<Value = EsdsS> {
    ((anyver(), flags24(), u16v(), u8v(), 0u8..64, any::<bool>()), (0u32..0x100_0000, u32v(), u32v(), prop_oneof![8 => 0u8..=30, 1 => Just(32u8), 1 => Just(94u8), 2 => 32u8..=94], 0u8..=14, 0u8..16)).prop_map(|((version, flags, es_id, object_type_indication, stream_type, up_stream), (buffer_size_db, max_bitrate, avg_bitrate, profile, freq_index, chan_conf))| EsdsS { version, flags, es_id, object_type_indication, stream_type, up_stream, buffer_size_db, max_bitrate, avg_bitrate, profile, freq_index, chan_conf })
}

fn tfhd_s() -> impl Strategy<Value = TfhdS> {
    (anyver(), prop_oneof![Just(0u32), Just(0x10000u32), Just(0x20000u32), Just(0x30000u32), (0u32..0x100_0000).prop_map(|x| x & !0x3b)], u32v(), prop::option::of(u64v()), prop::option::of(u32v()), prop::option::of(u32v()), prop::option::of(u32v()), prop::option::of(u32v())).prop_map(|(version, extra_flags, track_id, base, sdi, dur, size, sflags)| TfhdS { version, extra_flags, track_id, base, sdi, dur, size, sflags })
}

fn trun_s(max: usize) -> impl Strategy<Value = TrunS> {
    (anyver(), prop_oneof![3 => Just(0u32), 1 => (0u32..0x100_0000).prop_map(|x| x & !0xf05)], prop::option::of(any::<i32>()), prop::option::of(u32v()), any::<[bool; 4]>(), list((u32v(), u32v(), u32v(), u32v()), max)).prop_map(|(version, extra_flags, data_offset, first_flags, h, samples)| TrunS { version, extra_flags, data_offset, first_flags, has_dur: h[0], has_size: h[1], has_flags: h[2], has_cts: h[3], samples })
}

fn data_s() -> impl Strategy<Value = DataS> {
    (prop_oneof![Just(0u32), Just(1u32), Just(13u32), Just(21u32)], bytes(20)).prop_map(|(type_code, data)| DataS { type_code, data })
}

fn items_s() -> impl Strategy<Value = Vec<(u8, DataS)>> {
    (any::<[bool; 4]>(), prop::collection::vec(data_s(), 4..=4)).prop_map(|(present, datas)| (0u8..4).zip(datas).filter(|(k, _)| present[*k as usize]).collect())
}

fn meta_s() -> impl Strategy<Value = MetaS> {
    prop_oneof![
        3 => prop::option::of(items_s()).prop_map(|ilst| MetaS::Mdir { ilst }),
        2 => (anyver(), flags24(), prop_oneof![2 => Just(*b"mdta"), 1 => Just(*b"ID32"), 3 => cc_any()], text(), prop::collection::vec((prop_oneof![Just(*b"keys"), Just(*b"free"), Just(*b"ilst"), Just(*b"xml ")], bytes(12)), 0..3)).prop_map(|(hdlr_version, hdlr_flags, handler, name, children)| MetaS::Unknown { hdlr_version, hdlr_flags, handler: if handler == *b"mdir" { *b"mdiR" } else { handler }, name, children }),
    ]
}

/// table lengths: usually 0..=max; one draw in forty has a length at or around the sizes at which
/// block-wise readers and writers change behaviour (2^k entries, 64 KiB of records)
pub const BIG_LENS: [usize; 14] = [255, 256, 257, 1000, 1023, 1024, 1025, 2048, 3072, 4096, 4097, 5461, 5462, 8192];

fn list<T: std::fmt::Debug + Clone + 'static>(elem: impl Strategy<Value = T> + 'static, max: usize) -> impl Strategy<Value = Vec<T>> {
    let elem = elem.boxed();
    prop_oneof![
        39 => prop::collection::vec(elem.clone(), 0..=max),
        1 => (prop::collection::vec(elem, 1..=5), 0usize..BIG_LENS.len()).prop_map(|(seed, li)| seed.iter().cycle().take(BIG_LENS[li]).cloned().collect()),
    ]
}

fn table<T: std::fmt::Debug + Clone + 'static>(elem: impl Strategy<Value = T> + 'static, max: usize) -> impl Strategy<Value = (u8, u32, Vec<T>)> {
    (anyver(), flags24(), list(elem, max))
}

fn stsd_entry(max: usize) -> BoxedStrategy<Spec> {
    prop_oneof![strategy("avc1", max), strategy("hev1", max), strategy("vp09", max), strategy("mp4a", max), strategy("tx3g", max)].boxed()
}

fn bx(s: BoxedStrategy<Spec>) -> impl Strategy<Value = Box<Spec>> {
    s.prop_map(Box::new)
}

fn obx(s: BoxedStrategy<Spec>) -> impl Strategy<Value = Option<Box<Spec>>> {
    prop::option::of(s.prop_map(Box::new))
}

/// strategy for one box kind; `max` bounds list lengths
pub fn strategy(kind: &str, max: usize) -> BoxedStrategy<Spec> {
    match kind {
        "ftyp" => (cc_any(), u32v(), prop::collection::vec(cc_any(), 0..=max)).prop_map(|(major, minor, compat)| Spec::Ftyp { major, minor, compat }).boxed(),
        "mvhd" => (head(false), u32v(), u16v(), matrix(), u32v()).prop_map(|(h, rate, volume, matrix, next_track_id)| Spec::Mvhd { h, rate, volume, matrix, next_track_id }).boxed(),
        "tkhd" => (head(true), u16v(), u16v(), u16v(), matrix(), u32v(), u32v()).prop_map(|(h, layer, alt_group, volume, matrix, width, height)| Spec::Tkhd { h, layer, alt_group, volume, matrix, width, height }).boxed(),
        "mdhd" => (head(false), prop_oneof![4 => (b'a'..=b'z', b'a'..=b'z', b'a'..=b'z').prop_map(|(a, b, c)| [a, b, c]), 1 => (0x60u8..=0x7f, 0x60u8..=0x7f, 0x60u8..=0x7f).prop_map(|(a, b, c)| [a, b, c])]).prop_map(|(h, lang)| Spec::Mdhd { h, lang }).boxed(),
        "hdlr" => (anyver(), flags24(), cc_any(), text()).prop_map(|(version, flags, handler, name)| Spec::Hdlr { version, flags, handler, name }).boxed(),
        "elst" => elst_s(max).prop_map(Spec::Elst).boxed(),
        "edts" => elst_s(max).prop_map(|e| Spec::Edts { elst: Some(e) }).boxed(),
        "vmhd" => (anyver(), flags24(), u16v(), any::<[u16; 3]>()).prop_map(|(version, flags, graphics_mode, op)| Spec::Vmhd { version, flags, graphics_mode, op }).boxed(),
        "smhd" => (anyver(), flags24(), any::<i16>()).prop_map(|(version, flags, balance)| Spec::Smhd { version, flags, balance }).boxed(),
        "dinf" => (anyver(), flags24(), anyver(), flags24(), text()).prop_map(|(dref_version, dref_flags, url_version, url_flags, location)| Spec::Dinf { dref_version, dref_flags, url_version, url_flags, location }).boxed(),
        "stts" => table((u32v(), u32v()), max).prop_map(|(version, flags, entries)| Spec::Stts { version, flags, entries }).boxed(),
        "ctts" => table((u32v(), any::<i32>()), max).prop_map(|(version, flags, entries)| Spec::Ctts { version, flags, entries }).boxed(),
        "stss" => table(u32v(), max).prop_map(|(version, flags, entries)| Spec::Stss { version, flags, entries }).boxed(),
        "stco" => table(u32v(), max).prop_map(|(version, flags, entries)| Spec::Stco { version, flags, entries }).boxed(),
        "co64" => table(u64v(), max).prop_map(|(version, flags, entries)| Spec::Co64 { version, flags, entries }).boxed(),
        "stsc" => table((1u32..1000, 0u32..1000, u32v()), max)
            .prop_map(|(version, flags, raw)| {
                // first_chunk strictly increasing from the drawn increments
                // (the sample numbering implied by the table must fit 32 bits: long tables use
                // small runs)
                let long = raw.len() > 64;
                let mut fc = 0u32;
                let entries = raw
                    .into_iter()
                    .map(|(inc, spc, sdi)| {
                        let (inc, spc) = if long { (1 + inc % 16, spc % 16) } else { (inc, spc) };
                        fc += inc;
                        (fc, spc, sdi)
                    })
                    .collect();
                Spec::Stsc { version, flags, entries }
            })
            .boxed(),
        "stsz" => (anyver(), flags24(), any::<bool>(), 1u32..=u32::MAX, u32v(), list(u32v(), max))
            .prop_map(|(version, flags, constant, size, count, sizes)| if constant { Spec::Stsz { version, flags, sample_size: size, sample_count: count, sizes: vec![] } } else { Spec::Stsz { version, flags, sample_size: 0, sample_count: sizes.len() as u32, sizes } })
            .boxed(),
        "avcC" => avcc_s(max).prop_map(Spec::AvcC).boxed(),
        "avc1" => (visual_s(), avcc_s(max)).prop_map(|(v, avcc)| Spec::Avc1 { v, avcc }).boxed(),
        "hvcC" => hvcc_s(max).prop_map(Spec::HvcC).boxed(),
        "hev1" => (visual_s(), hvcc_s(max)).prop_map(|(v, hvcc)| Spec::Hev1 { v, hvcc }).boxed(),
        "vpcC" => vpcc_s().prop_map(Spec::VpcC).boxed(),
        "vp09" => vp09_s().prop_map(Spec::Vp09).boxed(),
        "esds" => esds_s().prop_map(Spec::Esds).boxed(),
        "mp4a" => (u16v(), u16v(), u16v(), u32v(), prop::option::weighted(0.8, esds_s())).prop_map(|(data_ref, channelcount, samplesize, samplerate, esds)| Spec::Mp4a { data_ref, channelcount, samplesize, samplerate, esds }).boxed(),
        "tx3g" => (u16v(), u32v(), any::<i8>(), any::<i8>(), any::<[u8; 4]>(), any::<[i16; 4]>(), any::<[u8; 12]>()).prop_map(|(data_ref, display_flags, hj, vj, bg, box_record, style)| Spec::Tx3g { data_ref, display_flags, hj, vj, bg, box_record, style }).boxed(),
        "stsd" => (anyver(), flags24(), stsd_entry(max)).prop_map(|(version, flags, entry)| Spec::Stsd { version, flags, entry: Box::new(entry) }).boxed(),
        "stbl" => (bx(strategy("stsd", max)), bx(strategy("stts", max)), obx(strategy("ctts", max)), obx(strategy("stss", max)), bx(strategy("stsc", max)), bx(strategy("stsz", max)), bx(prop_oneof![strategy("stco", max), strategy("co64", max)].boxed())).prop_map(|(stsd, stts, ctts, stss, stsc, stsz, co)| Spec::Stbl(StblS { stsd, stts, ctts, stss, stsc, stsz, co })).boxed(),
        "minf" => (obx(strategy("vmhd", max)), obx(strategy("smhd", max)), bx(strategy("stbl", max))).prop_map(|(vmhd, smhd, stbl)| Spec::Minf { vmhd, smhd, stbl }).boxed(),
        "mdia" => (bx(strategy("mdhd", max)), bx(strategy("hdlr", max)), bx(strategy("minf", max))).prop_map(|(mdhd, hdlr, minf)| Spec::Mdia { mdhd, hdlr, minf }).boxed(),
        "trak" => (bx(strategy("tkhd", max)), obx(strategy("edts", max)), obx(strategy("meta", max)), bx(strategy("mdia", max))).prop_map(|(tkhd, edts, meta, mdia)| Spec::Trak { tkhd, edts, meta, mdia }).boxed(),
        "mehd" => (ver01(), flags24(), u64v()).prop_map(|(version, flags, d)| Spec::Mehd { version, flags, duration: if version == 0 { d & 0xffff_ffff } else { d } }).boxed(),
        "trex" => (anyver(), flags24(), u32v(), u32v(), u32v(), u32v(), u32v()).prop_map(|(version, flags, track_id, sdi, dur, size, sflags)| Spec::Trex { version, flags, track_id, sdi, dur, size, sflags }).boxed(),
        "mvex" => (obx(strategy("mehd", max)), bx(strategy("trex", max))).prop_map(|(mehd, trex)| Spec::Mvex { mehd, trex }).boxed(),
        "moov" => (bx(strategy("mvhd", max)), obx(strategy("meta", max)), obx(strategy("mvex", max)), prop::collection::vec(strategy("trak", max.min(2)), 0..=max.min(2)), obx(strategy("udta", max))).prop_map(|(mvhd, meta, mvex, traks, udta)| Spec::Moov { mvhd, meta, mvex, traks, udta }).boxed(),
        "mfhd" => (anyver(), flags24(), u32v()).prop_map(|(version, flags, seq)| Spec::Mfhd { version, flags, seq }).boxed(),
        "tfhd" => tfhd_s().prop_map(Spec::Tfhd).boxed(),
        "tfdt" => (ver01(), flags24(), u64v()).prop_map(|(version, flags, t)| Spec::Tfdt { version, flags, time: if version == 0 { t & 0xffff_ffff } else { t } }).boxed(),
        "trun" => trun_s(max).prop_map(Spec::Trun).boxed(),
        "traf" => (bx(strategy("tfhd", max)), obx(strategy("tfdt", max)), obx(strategy("trun", max))).prop_map(|(tfhd, tfdt, trun)| Spec::Traf { tfhd, tfdt, trun }).boxed(),
        "moof" => (bx(strategy("mfhd", max)), prop::collection::vec(strategy("traf", max), 0..=max.min(2))).prop_map(|(mfhd, trafs)| Spec::Moof { mfhd, trafs }).boxed(),
        "emsg" => (ver01(), flags24(), u32v(), u64v(), u32v(), u32v(), u32v(), prop_oneof![1 => (text(), text(), bytes(9)), 1 => dict_triple("emsg")]).prop_map(|(version, flags, timescale, ptime, pdelta, event_duration, id, (scheme, value, data))| Spec::Emsg { version, flags, timescale, ptime, pdelta, event_duration, id, scheme, value, data }).boxed(),
        "data" => data_s().prop_map(Spec::Data).boxed(),
        "ilst" => items_s().prop_map(|items| Spec::Ilst { items }).boxed(),
        "meta" => meta_s().prop_map(Spec::Meta).boxed(),
        "udta" => obx(strategy("meta", max)).prop_map(|meta| Spec::Udta { meta }).boxed(),
        k => panic!("unknown box kind {}", k),
    }
}
