//! Counting global allocator: per-thread counters of bytes requested, largest single request
//! and live peak, reset at case start. Requests are always delegated to the system allocator
//! (lazy for calloc-style zeroed requests), so huge requests are *observed*, not refused.
//! A request above LOG_CAP is logged with a raw write(2) before being delegated, so that if the
//! process then dies in handle_alloc_error the supervisor still sees the size.

use std::alloc::{GlobalAlloc, Layout, System};
use std::cell::Cell;

pub struct Counting;

thread_local! {
    static TOTAL: Cell<u64> = const { Cell::new(0) };
    static LARGEST: Cell<u64> = const { Cell::new(0) };
    static LIVE: Cell<i64> = const { Cell::new(0) };
    static PEAK: Cell<i64> = const { Cell::new(0) };
    static ENABLED: Cell<bool> = const { Cell::new(false) };
}

pub const LOG_CAP: usize = 1 << 36; // 64 GiB

#[inline]
fn on_alloc(size: usize) {
    // try_with: thread-locals may be gone during thread teardown
    let _ = ENABLED.try_with(|e| {
        if e.get() {
            let s = size as u64;
            let _ = TOTAL.try_with(|t| t.set(t.get().wrapping_add(s)));
            let _ = LARGEST.try_with(|l| {
                if s > l.get() {
                    l.set(s)
                }
            });
            let _ = LIVE.try_with(|l| {
                let v = l.get() + size as i64;
                l.set(v);
                let _ = PEAK.try_with(|p| {
                    if v > p.get() {
                        p.set(v)
                    }
                });
            });
        }
    });
    if size >= LOG_CAP {
        let msg = format_small(size);
        unsafe {
            libc::write(2, msg.as_ptr() as *const libc::c_void, msg.len());
        }
    }
}

fn format_small(size: usize) -> [u8; 48] {
    // "ALLOC-REQUEST <decimal>\n" without allocating
    let mut buf = [b' '; 48];
    let head = b"ALLOC-REQUEST ";
    buf[..head.len()].copy_from_slice(head);
    let mut digits = [0u8; 24];
    let mut n = size;
    let mut i = 0;
    if n == 0 {
        digits[0] = b'0';
        i = 1;
    }
    while n > 0 {
        digits[i] = b'0' + (n % 10) as u8;
        n /= 10;
        i += 1;
    }
    let mut p = head.len();
    while i > 0 {
        i -= 1;
        buf[p] = digits[i];
        p += 1;
    }
    buf[47] = b'\n';
    buf
}

#[inline]
fn on_free(size: usize) {
    let _ = ENABLED.try_with(|e| {
        if e.get() {
            let _ = LIVE.try_with(|l| l.set(l.get() - size as i64));
        }
    });
}

unsafe impl GlobalAlloc for Counting {
    unsafe fn alloc(&self, layout: Layout) -> *mut u8 {
        on_alloc(layout.size());
        System.alloc(layout)
    }
    unsafe fn dealloc(&self, ptr: *mut u8, layout: Layout) {
        on_free(layout.size());
        System.dealloc(ptr, layout)
    }
    unsafe fn alloc_zeroed(&self, layout: Layout) -> *mut u8 {
        on_alloc(layout.size());
        System.alloc_zeroed(layout)
    }
    unsafe fn realloc(&self, ptr: *mut u8, layout: Layout, new_size: usize) -> *mut u8 {
        if new_size > layout.size() {
            on_alloc(new_size - layout.size());
        } else {
            on_free(layout.size() - new_size);
        }
        System.realloc(ptr, layout, new_size)
    }
}

#[derive(Debug, Clone, Copy, Default, serde::Serialize)]
pub struct AllocStats {
    pub total: u64,
    pub largest: u64,
    pub peak: u64,
}

/// Reset the counters of this thread and start counting.
pub fn start() {
    TOTAL.with(|t| t.set(0));
    LARGEST.with(|t| t.set(0));
    LIVE.with(|t| t.set(0));
    PEAK.with(|t| t.set(0));
    ENABLED.with(|e| e.set(true));
}

/// Stop counting and return the counters.
pub fn stop() -> AllocStats {
    ENABLED.with(|e| e.set(false));
    AllocStats {
        total: TOTAL.with(|t| t.get()),
        largest: LARGEST.with(|t| t.get()),
        peak: PEAK.with(|t| t.get()).max(0) as u64,
    }
}

/// Snapshot without stopping.
pub fn snapshot() -> AllocStats {
    AllocStats {
        total: TOTAL.with(|t| t.get()),
        largest: LARGEST.with(|t| t.get()),
        peak: PEAK.with(|t| t.get()).max(0) as u64,
    }
}
