//! Worker-side engine: case accounting, sharding, progress file, panic capture,
//! proptest driving with signature-stable shrinking, known-finding matching, result JSON.

use proptest::strategy::{Strategy, ValueTree};
use proptest::test_runner::{Config, RngAlgorithm, TestRng, TestRunner};
use serde::Serialize;
use serde_json::{json, Value};
use std::cell::RefCell;
use std::collections::{BTreeMap, BTreeSet};
use std::io::Write;
use std::panic::{catch_unwind, AssertUnwindSafe};
use std::path::PathBuf;

// ------------------------------------------------------------------------------------------
// Failure / panic capture
// ------------------------------------------------------------------------------------------

/// An oracle failure. `sig` is a stable signature (no line numbers, no addresses, no values
/// that vary between equivalent failures); `detail` is free text for humans.
#[derive(Debug, Clone)]
pub struct Failure {
    pub sig: String,
    pub detail: String,
}

impl Failure {
    pub fn new(sig: impl Into<String>, detail: impl Into<String>) -> Self {
        Failure { sig: sig.into(), detail: detail.into() }
    }
}

pub type Check = Result<(), Failure>;

#[macro_export]
macro_rules! fail {
    ($sig:expr, $($arg:tt)*) => {
        return Err($crate::engine::Failure::new($sig, format!($($arg)*)))
    };
}

#[macro_export]
macro_rules! ensure {
    ($cond:expr, $sig:expr, $($arg:tt)*) => {
        if !($cond) {
            return Err($crate::engine::Failure::new($sig, format!($($arg)*)));
        }
    };
}

#[derive(Debug, Clone)]
pub struct PanicRec {
    pub file: String,
    pub line: u32,
    pub msg: String,
}

impl PanicRec {
    /// signature: file (crate-relative, no line) + message with digits collapsed
    pub fn sig(&self, call: &str) -> String {
        // messages may quote input data (strings, byte lists): the first 72 characters identify the site
        let msg: String = normalize_msg(&self.msg).chars().take(72).collect();
        format!("panic@{}:{}:{}", call, self.file, msg)
    }
    pub fn failure(&self, call: &str) -> Failure {
        Failure::new(self.sig(call), format!("panic in {} at {}:{}: {}", call, self.file, self.line, self.msg))
    }
}

/// Collapse every run of digits to '#', so that messages like
/// "index out of bounds: the len is 3 but the index is 7" are stable.
pub fn normalize_msg(m: &str) -> String {
    // escaped characters quoted from the input ('\u{e9}') are data, not part of the site
    let mut m2 = String::with_capacity(m.len());
    let mut rest = m;
    while let Some(i) = rest.find("\\u{") {
        m2.push_str(&rest[..i]);
        m2.push('?');
        match rest[i..].find('}') {
            Some(j) => rest = &rest[i + j + 1..],
            None => {
                rest = "";
            }
        }
    }
    m2.push_str(rest);
    let m = m2.as_str();
    let mut out = String::with_capacity(m.len());
    let mut in_digits = false;
    for ch in m.chars() {
        if ch.is_ascii_digit() {
            if !in_digits {
                out.push('#');
                in_digits = true;
            }
        } else if !ch.is_ascii() || ch.is_ascii_control() {
            // data-dependent text (quoted input characters): collapse
            if !out.ends_with('?') {
                out.push('?');
            }
            in_digits = false;
        } else {
            in_digits = false;
            out.push(ch);
        }
    }
    if out.len() > 160 {
        out.truncate(160);
    }
    out
}

thread_local! {
    static LAST_PANIC: RefCell<Option<PanicRec>> = RefCell::new(None);
    static IN_GUARD: RefCell<u32> = RefCell::new(0);
}

fn rel_file(f: &str) -> String {
    if let Some(r) = f.strip_prefix("/repo/") {
        return r.to_string();
    }
    if let Some(i) = f.find("/registry/src/") {
        let rest = &f[i + "/registry/src/".len()..];
        if let Some(j) = rest.find('/') {
            return rest[j + 1..].to_string();
        }
    }
    if let Some(i) = f.find("/library/") {
        return f[i + 1..].to_string();
    }
    f.to_string()
}

pub fn install_panic_hook() {
    let default = std::panic::take_hook();
    std::panic::set_hook(Box::new(move |info| {
        let guarded = IN_GUARD.with(|g| *g.borrow() > 0);
        let msg = if let Some(s) = info.payload().downcast_ref::<&str>() {
            s.to_string()
        } else if let Some(s) = info.payload().downcast_ref::<String>() {
            s.clone()
        } else {
            "<non-string panic payload>".to_string()
        };
        let (file, line) = info.location().map(|l| (rel_file(l.file()), l.line())).unwrap_or(("?".into(), 0));
        if guarded {
            LAST_PANIC.with(|p| *p.borrow_mut() = Some(PanicRec { file, line, msg }));
        } else {
            // harness bug: let the default hook print it
            default(info);
        }
    }));
}

/// Run a library call; a panic inside is caught and returned as PanicRec.
pub fn guard<T>(f: impl FnOnce() -> T) -> Result<T, PanicRec> {
    IN_GUARD.with(|g| *g.borrow_mut() += 1);
    let r = catch_unwind(AssertUnwindSafe(f));
    IN_GUARD.with(|g| *g.borrow_mut() -= 1);
    match r {
        Ok(v) => Ok(v),
        Err(_) => {
            let rec = LAST_PANIC.with(|p| p.borrow_mut().take()).unwrap_or(PanicRec {
                file: "?".into(),
                line: 0,
                msg: "<panic without record>".into(),
            });
            Err(rec)
        }
    }
}

/// guard + convert a panic into a Failure naming the call
pub fn guarded<T>(call: &str, f: impl FnOnce() -> T) -> Result<T, Failure> {
    guard(f).map_err(|p| p.failure(call))
}

// ------------------------------------------------------------------------------------------
// Known findings
// ------------------------------------------------------------------------------------------

#[derive(Debug, Clone, serde::Deserialize)]
pub struct KnownFinding {
    pub id: String,
    pub property: String,
    pub status: String, // "open" | "fixed"
    /// a failure is attributed to this finding iff its sig starts with one of these
    #[serde(default)]
    pub sig_prefixes: Vec<String>,
    pub what: String,
    #[serde(default)]
    pub witness: Option<String>,
    #[serde(default)]
    pub commit: Option<String>,
}

#[derive(Debug, Clone, Default, serde::Deserialize)]
pub struct KnownFindings {
    #[serde(default)]
    pub findings: Vec<KnownFinding>,
}

impl KnownFindings {
    pub fn load() -> Self {
        let p = verif_root().join("known_findings.json");
        match std::fs::read_to_string(&p) {
            Ok(s) => serde_json::from_str(&s).expect("known_findings.json must parse"),
            Err(_) => KnownFindings::default(),
        }
    }
    pub fn open_for<'a>(&'a self, prop: &'a str) -> impl Iterator<Item = &'a KnownFinding> + 'a {
        self.findings.iter().filter(move |k| k.status == "open" && k.property == prop)
    }
    pub fn match_open(&self, prop: &str, sig: &str) -> Option<&KnownFinding> {
        self.findings.iter().filter(|k| k.status == "open" && k.property == prop).find(|k| k.sig_prefixes.iter().any(|p| sig.starts_with(p.as_str())))
    }
}

pub fn verif_root() -> PathBuf {
    std::env::var("VERIF_ROOT").map(PathBuf::from).unwrap_or_else(|_| PathBuf::from("/verif"))
}

// ------------------------------------------------------------------------------------------
// Ctx
// ------------------------------------------------------------------------------------------

#[derive(Debug, Clone, Copy, PartialEq, Eq)]
pub enum Tier {
    Quick,
    Thorough,
}

#[derive(Debug, Clone, Serialize)]
pub struct Violation {
    pub sig: String,
    pub detail: String,
    pub replay: String,
}

pub struct Ctx {
    pub prop: String,
    pub tier: Tier,
    pub seed: u64,
    pub shard: u32,
    pub nshards: u32,
    pub profile: String,
    pub out_dir: PathBuf,
    /// when set: only the case (stage, idx) is executed (attribution of process-level failures)
    pub only: Option<(String, u64)>,
    pub strict: bool, // replay mode: known findings are not tolerated silently (reported as such)

    pub kf: KnownFindings,

    stage: String,
    stage_no: u32,
    cur_idx: u64,
    progress_fd: Option<std::fs::File>,
    beats: u64,

    pub evaluations: u64,
    pub classes: BTreeMap<String, u64>,
    pub nontrivial: BTreeSet<u64>,
    nontrivial_overflow: u64,
    pub samples: BTreeMap<String, Value>,
    pub violations: Vec<Violation>,
    pub kf_hits: BTreeMap<String, u64>,
    pub excluded: BTreeMap<String, u64>,
    pub extra: BTreeMap<String, Value>,
    pub inconclusive: Vec<String>,
    viol_sigs: BTreeSet<String>,
}

pub const MAX_FINGERPRINTS: usize = 400_000;

impl Ctx {
    pub fn new(prop: &str, tier: Tier, seed: u64, shard: u32, nshards: u32, profile: &str, out_dir: PathBuf) -> Self {
        let progress_fd = std::fs::OpenOptions::new()
            .create(true)
            .write(true)
            .truncate(true)
            .open(out_dir.join(format!("progress.{}.{}", profile, shard)))
            .ok();
        Ctx {
            prop: prop.to_string(),
            tier,
            seed,
            shard,
            nshards,
            profile: profile.to_string(),
            out_dir,
            only: None,
            strict: false,
            kf: KnownFindings::load(),
            stage: String::new(),
            stage_no: 0,
            cur_idx: 0,
            progress_fd,
            beats: 0,
            evaluations: 0,
            classes: BTreeMap::new(),
            nontrivial: BTreeSet::new(),
            nontrivial_overflow: 0,
            samples: BTreeMap::new(),
            violations: Vec::new(),
            kf_hits: BTreeMap::new(),
            excluded: BTreeMap::new(),
            extra: BTreeMap::new(),
            inconclusive: Vec::new(),
            viol_sigs: BTreeSet::new(),
        }
    }

    pub fn quick(&self) -> bool {
        self.tier == Tier::Quick
    }

    /// pick a bound by tier
    pub fn pick<T>(&self, quick: T, thorough: T) -> T {
        if self.quick() {
            quick
        } else {
            thorough
        }
    }

    pub fn stage(&mut self, name: &str) {
        self.stage = name.to_string();
        self.stage_no += 1;
    }

    pub fn stage_name(&self) -> &str {
        &self.stage
    }

    /// seed for (stage, shard): pure function of VERIF_SEED, property, stage, shard
    pub fn stage_seed(&self, per_shard: bool) -> [u8; 32] {
        let mut h = Fnv::new();
        h.write(self.prop.as_bytes());
        h.write(&self.seed.to_le_bytes());
        h.write(self.stage.as_bytes());
        if per_shard {
            h.write(&self.shard.to_le_bytes());
        }
        let mut out = [0u8; 32];
        let mut x = h.finish();
        for chunk in out.chunks_mut(8) {
            x = splitmix(x);
            chunk.copy_from_slice(&x.to_le_bytes());
        }
        out
    }

    fn write_progress(&mut self, idx: u64) {
        self.cur_idx = idx;
        self.write_progress_beat(0);
    }

    /// progress record "stage idx beat": the beat changes while a long-running phase of the same
    /// case (shrinking) is alive, so the supervisor does not take it for a stall
    /// keep the progress record alive during one long case (the supervisor kills silent workers)
    pub fn heartbeat(&mut self) {
        self.beats += 1;
        let b = self.beats;
        self.write_progress_beat(b);
    }

    fn write_progress_beat(&mut self, beat: u64) {
        let idx = self.cur_idx;
        if let Some(f) = self.progress_fd.as_mut() {
            use std::os::unix::fs::FileExt;
            let mut buf = [b' '; 96];
            let s = format!("{} {} {}\n", self.stage, idx, beat);
            let n = s.len().min(95);
            buf[..n].copy_from_slice(&s.as_bytes()[..n]);
            let _ = f.write_at(&buf, 0);
        }
    }

    /// Enumerated stage: does this worker execute case `idx`? (sharding by index, `only` filter,
    /// progress record).
    pub fn enter(&mut self, idx: u64) -> bool {
        if let Some((st, i)) = &self.only {
            if *st != self.stage || *i != idx {
                return false;
            }
        } else if idx % self.nshards as u64 != self.shard as u64 {
            return false;
        }
        self.write_progress(idx);
        true
    }

    /// Per-shard stream stage (proptest): `only` filter + progress record.
    pub fn enter_own(&mut self, idx: u64) -> bool {
        if let Some((st, i)) = &self.only {
            if *st != self.stage || *i != idx {
                return false;
            }
        }
        self.write_progress(idx);
        true
    }

    pub fn count(&mut self, class: &str) {
        *self.classes.entry(class.to_string()).or_insert(0) += 1;
    }
    pub fn count_n(&mut self, class: &str, n: u64) {
        *self.classes.entry(class.to_string()).or_insert(0) += n;
    }

    pub fn exclude(&mut self, what: &str) {
        *self.excluded.entry(what.to_string()).or_insert(0) += 1;
    }

    /// record a non-trivial case by fingerprint
    pub fn nontrivial(&mut self, fp: u64) {
        if self.nontrivial.len() < MAX_FINGERPRINTS {
            self.nontrivial.insert(fp);
        } else if !self.nontrivial.contains(&fp) {
            // beyond the cap we cannot dedupe: counted separately and NOT added to distinct
            self.nontrivial_overflow += 1;
        }
    }

    /// keep one sample per class (first seen), serialised lazily
    pub fn sample<S: Serialize>(&mut self, class: &str, case: &S) {
        if self.samples.len() < 12 && !self.samples.contains_key(class) {
            let mut v = serde_json::to_value(case).unwrap_or(Value::Null);
            truncate_value(&mut v, 0);
            self.samples.insert(class.to_string(), v);
        }
    }

    /// Evaluate the result of an oracle on a case (non-proptest path). Returns true if the case passed
    /// (or only matched a known finding).
    pub fn judge<S: Serialize>(&mut self, case: &S, res: Check) -> bool {
        self.evaluations += 1;
        match res {
            Ok(()) => true,
            Err(f) => {
                if !self.strict {
                    if let Some(k) = self.kf.match_open(&self.prop, &f.sig) {
                        *self.kf_hits.entry(k.id.clone()).or_insert(0) += 1;
                        return true;
                    }
                }
                self.violation(case, &f);
                false
            }
        }
    }

    pub fn violation<S: Serialize>(&mut self, case: &S, f: &Failure) {
        // one replay per distinct signature per worker (keeps output bounded)
        if !self.viol_sigs.insert(f.sig.clone()) {
            return;
        }
        if self.violations.len() >= 20 {
            return;
        }
        let dir = verif_root().join("replays").join(&self.prop);
        let _ = std::fs::create_dir_all(&dir);
        let name = format!(
            "{}-{}-{}-{:016x}.json",
            self.profile,
            self.stage.replace(|c: char| !c.is_ascii_alphanumeric(), "_"),
            self.shard,
            fnv64(f.sig.as_bytes()) ^ self.violations.len() as u64
        );
        let path = dir.join(name);
        let doc = json!({
            "property": self.prop,
            "stage": self.stage,
            "profile": self.profile,
            "sig": f.sig,
            "detail": f.detail,
            "case": serde_json::to_value(case).unwrap_or(Value::Null),
        });
        let _ = std::fs::write(&path, serde_json::to_vec_pretty(&doc).unwrap());
        self.violations.push(Violation { sig: f.sig.clone(), detail: f.detail.clone(), replay: path.to_string_lossy().to_string() });
    }

    /// In an attribution run (`only` set) persist the case before it is executed, so that a
    /// process-level failure (abort, stack overflow, stall) leaves a replay file behind.
    pub fn pre_case<S: Serialize>(&mut self, case: &S) {
        if let Some((_, idx)) = &self.only {
            let dir = verif_root().join("replays").join(&self.prop);
            let _ = std::fs::create_dir_all(&dir);
            let path = dir.join(format!("proc-{}-{}-{}-{}.json", self.profile, self.stage, self.shard, idx));
            let doc = json!({"property": self.prop, "stage": self.stage, "profile": self.profile,
                "sig": "process-level failure (abort/stall), see supervisor", "case": serde_json::to_value(case).unwrap_or(Value::Null)});
            let _ = std::fs::write(&path, serde_json::to_vec_pretty(&doc).unwrap());
        }
    }

    /// Drive a proptest strategy for `cases` cases on this shard's own stream.
    /// `oracle` gets (ctx, &case) and returns a Check. Known findings are tolerated and counted;
    /// on a genuine failure the case is shrunk *against the same signature* and recorded.
    pub fn run_prop<S, F>(&mut self, strategy: S, cases: u32, mut oracle: F)
    where
        S: Strategy,
        S::Value: Serialize + Clone + std::fmt::Debug,
        F: FnMut(&mut Ctx, &S::Value) -> Check,
    {
        if cases == 0 {
            return;
        }
        let config = Config {
            cases,
            failure_persistence: None,
            max_shrink_iters: 4096,
            max_local_rejects: 1_000_000,
            max_global_rejects: 1_000_000,
            verbose: 0,
            ..Config::default()
        };
        let seed = self.stage_seed(true);
        let mut runner = TestRunner::new_with_rng(config, TestRng::from_seed(RngAlgorithm::ChaCha, &seed));
        // manual loop (instead of runner.run) so that we control counting and shrinking
        let mut idx: u64 = 0;
        for _ in 0..cases {
            let tree = match strategy.new_tree(&mut runner) {
                Ok(t) => t,
                Err(_) => continue,
            };
            let my_idx = idx;
            idx += 1;
            if !self.enter_own(my_idx) {
                continue;
            }
            let case = tree.current();
            self.pre_case(&case);
            self.evaluations += 1;
            let res = oracle(self, &case);
            let f = match res {
                Ok(()) => continue,
                Err(f) => f,
            };
            if !self.strict {
                if let Some(k) = self.kf.match_open(&self.prop, &f.sig) {
                    *self.kf_hits.entry(k.id.clone()).or_insert(0) += 1;
                    continue;
                }
            }
            if self.viol_sigs.contains(&f.sig) {
                continue;
            }
            // shrink against the same signature
            let (min_case, min_f) = self.shrink(tree, f, &mut oracle);
            self.violation(&min_case, &min_f);
        }
    }

    fn shrink<T, F>(&mut self, mut tree: T, first: Failure, oracle: &mut F) -> (T::Value, Failure)
    where
        T: ValueTree,
        T::Value: Clone,
        F: FnMut(&mut Ctx, &T::Value) -> Check,
    {
        let saved = (self.evaluations, self.classes.clone(), self.nontrivial.clone(), self.samples.clone(), self.kf_hits.clone());
        let mut best = (tree.current(), first.clone());
        let mut iters = 0;
        let t0 = std::time::Instant::now();
        if tree.simplify() {
            loop {
                iters += 1;
                // shrinking only affects how small the reported case is, never the verdict:
                // bound it by iterations and by wall time, and keep the progress record alive
                if iters > 2000 || t0.elapsed().as_secs() > 20 {
                    break;
                }
                self.write_progress_beat(iters);
                let cur = tree.current();
                let still_fails = match oracle(self, &cur) {
                    Err(f) if f.sig == first.sig => {
                        best = (cur, f);
                        true
                    }
                    _ => false,
                };
                if still_fails {
                    if !tree.simplify() {
                        break;
                    }
                } else if !tree.complicate() {
                    break;
                }
            }
        }
        // do not let shrinking executions pollute the coverage numbers
        self.evaluations = saved.0;
        self.classes = saved.1;
        self.nontrivial = saved.2;
        self.samples = saved.3;
        self.kf_hits = saved.4;
        best
    }

    pub fn result_json(&self) -> Value {
        json!({
            "property": self.prop,
            "profile": self.profile,
            "shard": self.shard,
            "evaluations": self.evaluations,
            "classes": self.classes,
            "nontrivial": self.nontrivial.iter().map(|x| format!("{:x}", x)).collect::<Vec<_>>(),
            "nontrivial_overflow": self.nontrivial_overflow,
            "samples": self.samples,
            "violations": self.violations,
            "kf_hits": self.kf_hits,
            "excluded": self.excluded,
            "extra": self.extra,
            "inconclusive": self.inconclusive,
            "completed": true,
        })
    }

    pub fn write_result(&self) {
        let p = self.out_dir.join(format!("result.{}.{}.json", self.profile, self.shard));
        let mut f = std::fs::File::create(&p).expect("create result file");
        f.write_all(serde_json::to_string(&self.result_json()).unwrap().as_bytes()).unwrap();
    }
}

/// keep samples small in the evidence file
fn truncate_value(v: &mut Value, depth: usize) {
    match v {
        Value::Array(a) => {
            if a.len() > 24 {
                let n = a.len();
                a.truncate(24);
                a.push(json!(format!("... ({} items total)", n)));
            }
            for x in a.iter_mut() {
                truncate_value(x, depth + 1);
            }
        }
        Value::Object(o) => {
            for (_, x) in o.iter_mut() {
                truncate_value(x, depth + 1);
            }
        }
        Value::String(s) => {
            if s.len() > 400 {
                let n = s.len();
                s.truncate(400);
                s.push_str(&format!("... ({} chars total)", n));
            }
        }
        _ => {}
    }
}

// ------------------------------------------------------------------------------------------
// small hashing helpers (deterministic, no std RandomState)
// ------------------------------------------------------------------------------------------

pub struct Fnv(u64);
impl Fnv {
    pub fn new() -> Self {
        Fnv(0xcbf29ce484222325)
    }
    pub fn write(&mut self, b: &[u8]) {
        for x in b {
            self.0 ^= *x as u64;
            self.0 = self.0.wrapping_mul(0x100000001b3);
        }
    }
    pub fn write_u64(&mut self, v: u64) {
        self.write(&v.to_le_bytes());
    }
    pub fn finish(&self) -> u64 {
        splitmix(self.0)
    }
}

pub fn fnv64(b: &[u8]) -> u64 {
    let mut h = Fnv::new();
    h.write(b);
    h.finish()
}

pub fn splitmix(mut x: u64) -> u64 {
    x = x.wrapping_add(0x9E3779B97F4A7C15);
    let mut z = x;
    z = (z ^ (z >> 30)).wrapping_mul(0xBF58476D1CE4E5B9);
    z = (z ^ (z >> 27)).wrapping_mul(0x94D049BB133111EB);
    z ^ (z >> 31)
}

/// fingerprint of any serialisable case
pub fn fp_of<S: Serialize>(s: &S) -> u64 {
    fnv64(&serde_json::to_vec(s).unwrap_or_default())
}

pub fn hex(b: &[u8]) -> String {
    let mut s = String::with_capacity(b.len() * 2);
    for x in b {
        s.push_str(&format!("{:02x}", x));
    }
    s
}

pub fn unhex(s: &str) -> Vec<u8> {
    (0..s.len() / 2).map(|i| u8::from_str_radix(&s[2 * i..2 * i + 2], 16).unwrap_or(0)).collect()
}
