//! Muxer histories: model, interpreter against `Mp4Writer`, proptest strategies.

use crate::engine::{guard, Failure, PanicRec};
use crate::refmp4::sample_bytes;
use proptest::prelude::*;
use serde::{Deserialize, Serialize};
use std::io::{Cursor, Seek, Write};

#[derive(Clone, Debug, Serialize, Deserialize, PartialEq, Eq)]
pub enum MKind {
    Avc { width: u16, height: u16, sps: Vec<u8>, pps: Vec<u8> },
    Hevc { width: u16, height: u16 },
    Vp9 { width: u16, height: u16 },
    /// raw enum discriminants (object type, freq index, channel config); converted with TryFrom
    Aac { profile: u8, freq_index: u8, chan: u8, bitrate: u32 },
    Ttxt,
}

#[derive(Clone, Debug, Serialize, Deserialize, PartialEq, Eq)]
pub struct MTrack {
    pub kind: MKind,
    pub timescale: u32,
    pub language: String,
    /// use the From<XConfig> preset constructor (timescale 1000, "und") instead of explicit fields
    pub preset: bool,
    /// TrackConfig::track_type: 0 = the kind natural for the codec, 1 Video, 2 Audio, 3 Subtitle
    /// (the configuration lets the caller choose it independently of the media configuration)
    #[serde(default)]
    pub ttype: u8,
}

#[derive(Clone, Debug, Serialize, Deserialize, PartialEq, Eq)]
pub struct MOp {
    /// track id as passed to write_sample (may be invalid)
    pub track: u32,
    pub size: u32,
    pub dur: u32,
    pub cts: i32,
    pub sync: bool,
}

#[derive(Clone, Debug, Serialize, Deserialize, PartialEq, Eq)]
pub struct MuxCase {
    pub major: [u8; 4],
    pub minor: u32,
    pub compat: Vec<[u8; 4]>,
    pub timescale: u32,
    pub tracks: Vec<MTrack>,
    pub ops: Vec<MOp>,
    /// sink the history is muxed into by `run_mux_vec`: 0 = an in-memory cursor that takes every
    /// write whole; otherwise a legal sink that accepts at most `sink & 0xff` bytes per write call
    /// (a varying amount up to that when bits 8..11 are non-zero); bits 12..15: the caller has
    /// already written a free box to the sink, the muxer starts behind it (`lead_bytes`);
    /// bits 16..31: number of stale bytes the sink already holds behind the starting position (a
    /// pre-sized or re-used buffer); the output is then the sink up to the muxer's final position
    #[serde(default)]
    pub sink: u32,
}

#[derive(Clone, Debug, PartialEq, Eq)]
pub struct MSample {
    pub size: u32,
    pub dur: u32,
    pub cts: i32,
    pub sync: bool,
}

#[derive(Debug)]
pub enum CallOutcome {
    Ok,
    Err(String),
    Panic(PanicRec),
}

#[derive(Debug)]
pub struct MuxRun<W> {
    /// None if a panic tore the writer down or write_start failed
    pub writer: Option<W>,
    /// per call: (name, outcome)
    pub calls: Vec<(String, CallOutcome)>,
    /// model: accepted samples per track (index = track id - 1)
    pub model: Vec<Vec<MSample>>,
    pub all_ok: bool,
    pub panicked: bool,
    /// number of tracks the muxer accepted
    pub tracks_added: usize,
}

/// does the documented domain say add_track accepts this configuration?
pub fn expect_accept(t: &MTrack) -> bool {
    (t.preset || t.timescale != 0)
        && match &t.kind {
            MKind::Avc { sps, pps, .. } => sps.len() >= 4 && sps.len() <= 65535 && pps.len() <= 65535,
            MKind::Aac { profile, freq_index, chan, .. } => aac_valid(*profile, *freq_index, *chan),
            _ => true,
        }
}

pub fn aac_valid(profile: u8, freq: u8, chan: u8) -> bool {
    use std::convert::TryFrom;
    mp4::AudioObjectType::try_from(profile).is_ok() && mp4::SampleFreqIndex::try_from(freq).is_ok() && mp4::ChannelConfig::try_from(chan).is_ok()
}

pub fn track_config(t: &MTrack) -> Option<mp4::TrackConfig> {
    use std::convert::TryFrom;
    let media = match &t.kind {
        MKind::Avc { width, height, sps, pps } => mp4::MediaConfig::AvcConfig(mp4::AvcConfig { width: *width, height: *height, seq_param_set: sps.clone(), pic_param_set: pps.clone() }),
        MKind::Hevc { width, height } => mp4::MediaConfig::HevcConfig(mp4::HevcConfig { width: *width, height: *height }),
        MKind::Vp9 { width, height } => mp4::MediaConfig::Vp9Config(mp4::Vp9Config { width: *width, height: *height }),
        MKind::Aac { profile, freq_index, chan, bitrate } => mp4::MediaConfig::AacConfig(mp4::AacConfig {
            bitrate: *bitrate,
            profile: mp4::AudioObjectType::try_from(*profile).ok()?,
            freq_index: mp4::SampleFreqIndex::try_from(*freq_index).ok()?,
            chan_conf: mp4::ChannelConfig::try_from(*chan).ok()?,
        }),
        MKind::Ttxt => mp4::MediaConfig::TtxtConfig(mp4::TtxtConfig {}),
    };
    if t.preset {
        Some(mp4::TrackConfig::from(media))
    } else {
        let track_type = match (t.ttype, &t.kind) {
            (1, _) => mp4::TrackType::Video,
            (2, _) => mp4::TrackType::Audio,
            (3, _) => mp4::TrackType::Subtitle,
            (_, MKind::Avc { .. } | MKind::Hevc { .. } | MKind::Vp9 { .. }) => mp4::TrackType::Video,
            (_, MKind::Aac { .. }) => mp4::TrackType::Audio,
            (_, MKind::Ttxt) => mp4::TrackType::Subtitle,
        };
        Some(mp4::TrackConfig { track_type, timescale: t.timescale, language: t.language.clone(), media_conf: media })
    }
}

pub fn mp4_config(c: &MuxCase) -> mp4::Mp4Config {
    mp4::Mp4Config { major_brand: mp4::FourCC { value: c.major }, minor_version: c.minor, compatible_brands: c.compat.iter().map(|b| mp4::FourCC { value: *b }).collect(), timescale: c.timescale }
}

thread_local! {
    /// (operation index, milliseconds): run_mux on this thread sleeps that long before that
    /// write_sample call (C15: the output must not depend on the real time between calls)
    pub static PACE: std::cell::Cell<Option<(usize, u64)>> = const { std::cell::Cell::new(None) };
}

/// Interpret a history against the real muxer. Every call is guarded; after a panic the
/// history stops (the writer state is unspecified).
pub fn run_mux<W: Write + Seek>(case: &MuxCase, w: W) -> MuxRun<W> {
    let mut calls = Vec::new();
    let cfg = mp4_config(case);
    let mut all_ok = true;
    let mut model: Vec<Vec<MSample>> = Vec::new();
    let mut writer = match guard(|| mp4::Mp4Writer::write_start(w, &cfg)) {
        Ok(Ok(wr)) => {
            calls.push(("write_start".into(), CallOutcome::Ok));
            wr
        }
        Ok(Err(e)) => {
            calls.push(("write_start".into(), CallOutcome::Err(e.to_string())));
            return MuxRun { writer: None, calls, model, all_ok: false, panicked: false, tracks_added: 0 };
        }
        Err(p) => {
            calls.push(("write_start".into(), CallOutcome::Panic(p)));
            return MuxRun { writer: None, calls, model, all_ok: false, panicked: true, tracks_added: 0 };
        }
    };
    let mut tracks_added = 0usize;
    for t in &case.tracks {
        let Some(tc) = track_config(t) else { continue };
        match guard(|| writer.add_track(&tc)) {
            Ok(Ok(())) => {
                calls.push(("add_track".into(), CallOutcome::Ok));
                tracks_added += 1;
                model.push(Vec::new());
            }
            Ok(Err(e)) => {
                all_ok = false;
                calls.push(("add_track".into(), CallOutcome::Err(e.to_string())));
            }
            Err(p) => {
                calls.push(("add_track".into(), CallOutcome::Panic(p)));
                return MuxRun { writer: None, calls, model, all_ok: false, panicked: true, tracks_added };
            }
        }
    }
    let pace = PACE.with(|p| p.get());
    for (oi, op) in case.ops.iter().enumerate() {
        if let Some((at, ms)) = pace {
            if oi == at {
                std::thread::sleep(std::time::Duration::from_millis(ms));
            }
        }
        let idx = if op.track >= 1 && (op.track as usize) <= model.len() { model[op.track as usize - 1].len() as u32 } else { 0 };
        let bytes = sample_bytes(op.track, idx, op.size);
        let sample = mp4::Mp4Sample { start_time: 0, duration: op.dur, rendering_offset: op.cts, is_sync: op.sync, bytes: mp4::Bytes::from(bytes) };
        match guard(|| writer.write_sample(op.track, &sample)) {
            Ok(Ok(())) => {
                calls.push(("write_sample".into(), CallOutcome::Ok));
                if op.track >= 1 && (op.track as usize) <= model.len() {
                    model[op.track as usize - 1].push(MSample { size: op.size, dur: op.dur, cts: op.cts, sync: op.sync });
                } else {
                    // accepted a sample for a track that does not exist: recorded by the caller
                    calls.push(("write_sample-accepted-unknown-track".into(), CallOutcome::Ok));
                }
            }
            Ok(Err(e)) => {
                all_ok = false;
                calls.push(("write_sample".into(), CallOutcome::Err(e.to_string())));
            }
            Err(p) => {
                calls.push(("write_sample".into(), CallOutcome::Panic(p)));
                return MuxRun { writer: None, calls, model, all_ok: false, panicked: true, tracks_added };
            }
        }
    }
    match guard(|| writer.write_end()) {
        Ok(Ok(())) => calls.push(("write_end".into(), CallOutcome::Ok)),
        Ok(Err(e)) => {
            all_ok = false;
            calls.push(("write_end".into(), CallOutcome::Err(e.to_string())));
        }
        Err(p) => {
            calls.push(("write_end".into(), CallOutcome::Panic(p)));
            return MuxRun { writer: None, calls, model, all_ok: false, panicked: true, tracks_added };
        }
    }
    // C17: the writer stays a live object after write_end; further calls must not panic either
    let rounds = AFTER_END.with(|c| c.get());
    for i in 0..rounds {
        if i % 2 == 1 || rounds == 1 {
            let op = case.ops.iter().rev().find(|o| o.track >= 1).cloned().unwrap_or(MOp { track: 1, size: 3, dur: 1, cts: 0, sync: true });
            let sample = mp4::Mp4Sample { start_time: 0, duration: op.dur, rendering_offset: op.cts, is_sync: op.sync, bytes: mp4::Bytes::from(sample_bytes(op.track, 9_999, op.size.min(64))) };
            match guard(|| writer.write_sample(op.track, &sample)) {
                Ok(Ok(())) => calls.push(("write_sample-after-end".into(), CallOutcome::Ok)),
                Ok(Err(e)) => calls.push(("write_sample-after-end".into(), CallOutcome::Err(e.to_string()))),
                Err(p) => {
                    calls.push(("write_sample".into(), CallOutcome::Panic(p)));
                    return MuxRun { writer: None, calls, model, all_ok: false, panicked: true, tracks_added };
                }
            }
        }
        match guard(|| writer.write_end()) {
            Ok(Ok(())) => calls.push(("write_end-again".into(), CallOutcome::Ok)),
            Ok(Err(e)) => calls.push(("write_end-again".into(), CallOutcome::Err(e.to_string()))),
            Err(p) => {
                calls.push(("write_end".into(), CallOutcome::Panic(p)));
                return MuxRun { writer: None, calls, model, all_ok: false, panicked: true, tracks_added };
            }
        }
    }
    MuxRun { writer: Some(writer.into_writer()), calls, model, all_ok, panicked: false, tracks_added }
}

thread_local! {
    /// number of extra (write_sample,) write_end rounds run_mux performs after the history's
    /// write_end on this thread (C17 stage 'calls-after-write_end')
    pub static AFTER_END: std::cell::Cell<u8> = const { std::cell::Cell::new(0) };
}

/// bytes the caller writes to the sink before handing it to the muxer (bits 12..15 of `sink`):
/// one free box, so that the output as a whole is still a file; the muxer starts at a non-zero position
pub fn lead_bytes(sink: u32) -> Vec<u8> {
    let payload = match (sink >> 12) & 0xf {
        0 => return Vec::new(),
        1 => 0usize,
        2 => 1,
        3 => 56,
        4 => 1000,
        n => 8 * n as usize + 3,
    };
    let mut v = ((8 + payload) as u32).to_be_bytes().to_vec();
    v.extend_from_slice(b"free");
    v.extend(std::iter::repeat(0x5a).take(payload));
    v
}

pub fn run_mux_vec(case: &MuxCase) -> (MuxRun<Cursor<Vec<u8>>>, Vec<u8>) {
    let lead = lead_bytes(case.sink);
    let stale = (case.sink >> 16) as usize;
    let start = || {
        let mut v = lead.clone();
        v.extend(std::iter::repeat(0xee).take(stale));
        let mut c = Cursor::new(v);
        c.set_position(lead.len() as u64);
        c
    };
    // a sink that held stale bytes: the caller's file ends where the muxer stopped
    let finish = |c: Cursor<Vec<u8>>| {
        let pos = c.position() as usize;
        let mut v = c.into_inner();
        if stale > 0 {
            v.truncate(pos.max(lead.len()));
        }
        v
    };
    if case.sink & 0xfff == 0 && (!lead.is_empty() || stale > 0) {
        let mut r = run_mux(case, start());
        let bytes = r.writer.take().map(finish).unwrap_or_default();
        return (r, bytes);
    }
    if case.sink != 0 {
        let max = (case.sink & 0xff).max(1) as usize;
        let vary = ((case.sink >> 8) & 0xf) as u64;
        let mut r = run_mux(case, crate::io::ShortStream::new(start(), max, vary, 0));
        let bytes = r.writer.take().map(|s| finish(s.inner)).unwrap_or_default();
        return (MuxRun { writer: None, calls: r.calls, model: r.model, all_ok: r.all_ok, panicked: r.panicked, tracks_added: r.tracks_added }, bytes);
    }
    let mut r = run_mux(case, Cursor::new(Vec::new()));
    let bytes = r.writer.take().map(|c| c.into_inner()).unwrap_or_default();
    (r, bytes)
}

#[derive(Default, Debug)]
pub struct CallsVerdict {
    /// a call the documented domain says must be accepted returned Err: history outside the property
    pub rejected_valid: bool,
    /// add_track accepted a configuration expected to be rejected (track ids no longer line up)
    pub accepted_invalid: bool,
    pub had_rejected_track: bool,
    pub had_rejected_sample: bool,
    /// write_sample with an unknown track id returned Ok
    pub accepted_bad_sample: bool,
}

pub fn judge_calls<W>(case: &MuxCase, run: &MuxRun<W>) -> CallsVerdict {
    let mut v = CallsVerdict::default();
    let (mut ti, mut oi) = (0usize, 0usize);
    let configs: Vec<&MTrack> = case.tracks.iter().filter(|t| track_config(t).is_some()).collect();
    for (name, out) in &run.calls {
        match name.as_str() {
            "add_track" => {
                let expect = configs.get(ti).map(|t| expect_accept(t)).unwrap_or(true);
                ti += 1;
                match (out, expect) {
                    (CallOutcome::Err(_), true) => v.rejected_valid = true,
                    (CallOutcome::Ok, false) => v.accepted_invalid = true,
                    (CallOutcome::Err(_), false) => v.had_rejected_track = true,
                    _ => {}
                }
            }
            "write_sample" => {
                let op = &case.ops[oi.min(case.ops.len().saturating_sub(1))];
                oi += 1;
                let valid = op.track >= 1 && (op.track as usize) <= run.tracks_added;
                match out {
                    CallOutcome::Err(_) if valid => v.rejected_valid = true,
                    CallOutcome::Err(_) => v.had_rejected_sample = true,
                    CallOutcome::Ok if !valid => v.accepted_bad_sample = true,
                    _ => {}
                }
            }
            "write_sample-accepted-unknown-track" => v.accepted_bad_sample = true,
            _ => {
                if matches!(out, CallOutcome::Err(_)) {
                    v.rejected_valid = true;
                }
            }
        }
    }
    v
}

pub fn first_panic<W>(r: &MuxRun<W>) -> Option<Failure> {
    for (name, o) in &r.calls {
        if let CallOutcome::Panic(p) = o {
            return Some(p.failure(name));
        }
    }
    None
}

// ------------------------------------------------------------------------------------------
// strategies
// ------------------------------------------------------------------------------------------

/// parameter-set bytes are opaque to the container: random bytes, but also content a codec-aware
/// layer might be tempted to interpret (Annex B start codes, emulation prevention, all 0 / 0xFF)
pub fn param_set(min: usize, max: usize) -> impl Strategy<Value = Vec<u8>> {
    let tail = prop::collection::vec(any::<u8>(), min..max);
    prop_oneof![
        6 => prop::collection::vec(any::<u8>(), min..max),
        1 => tail.clone().prop_map(|t| [&[0u8, 0, 0, 1][..], &t[..]].concat()),
        1 => tail.clone().prop_map(|t| [&[0u8, 0, 1][..], &t[..]].concat()),
        1 => tail.prop_map(|t| [&[0x67u8, 0x42, 0, 0, 3, 0, 0, 3][..], &t[..]].concat()),
        1 => (min.max(1)..max.max(2), prop_oneof![Just(0u8), Just(0xffu8)]).prop_map(|(n, b)| vec![b; n]),
    ]
}

pub fn valid_kind() -> impl Strategy<Value = MKind> {
    prop_oneof![
        (any::<u16>(), any::<u16>(), param_set(4, 16), param_set(0, 8)).prop_map(|(width, height, sps, pps)| MKind::Avc { width, height, sps, pps }),
        (any::<u16>(), any::<u16>()).prop_map(|(width, height)| MKind::Hevc { width, height }),
        (any::<u16>(), any::<u16>()).prop_map(|(width, height)| MKind::Vp9 { width, height }),
        (valid_aot(), 0u8..=12, 1u8..=7, any::<u32>()).prop_map(|(profile, freq_index, chan, bitrate)| MKind::Aac { profile, freq_index, chan, bitrate }),
        Just(MKind::Ttxt),
    ]
}

pub const VALID_AOT: [u8; 42] = [1, 2, 3, 4, 5, 6, 7, 8, 9, 12, 13, 14, 15, 16, 17, 19, 20, 21, 22, 23, 24, 25, 26, 27, 28, 29, 30, 32, 33, 34, 35, 36, 37, 38, 39, 40, 41, 42, 43, 44, 45, 46];

pub fn valid_aot() -> impl Strategy<Value = u8> {
    prop_oneof![3 => Just(2u8), 5 => (0usize..VALID_AOT.len()).prop_map(|i| VALID_AOT[i])]
}

pub fn lang3() -> impl Strategy<Value = String> {
    prop_oneof![2 => Just("und".to_string()), 1 => Just("eng".to_string()), 3 => "[a-z]{3}"]
}

/// (track timescale, per-sample duration strategy weights keyed to the timescale)
pub fn dur_for(ts: u32) -> impl Strategy<Value = u32> {
    let third = (ts / 3).max(1);
    prop_oneof![
        2 => Just(0u32),
        2 => Just(1u32),
        3 => Just(third),
        2 => Just(ts.saturating_sub(1)),
        2 => Just(ts),
        1 => Just(ts.saturating_add(1)),
        2 => 0u32..=ts.min(5000),
        1 => any::<u32>(),
        1 => Just(u32::MAX),
        1 => Just(1u32 << 31),
    ]
}

#[derive(Clone, Debug)]
pub struct RawOp {
    pub track_frac: u16,
    pub bad_track: Option<u8>,
    pub size_sel: u8,
    pub size: u32,
    pub dur_sel: u8,
    pub dur: u32,
    pub cts: i32,
    pub sync: bool,
}

pub fn raw_op(bad_weight: f64) -> impl Strategy<Value = RawOp> {
    (
        any::<u16>(),
        if bad_weight > 0.0 { prop::option::weighted(bad_weight, 0u8..3).boxed() } else { Just(None::<u8>).boxed() },
        0u8..8,
        prop_oneof![50 => Just(0u32), 50 => Just(1u32), 50 => 1u32..20, 50 => 20u32..400, 1 => (0usize..crate::gen::BIG_SIZES.len()).prop_map(|i| crate::gen::BIG_SIZES[i])],
        0u8..12,
        any::<u32>(),
        crate::gen::cts_strategy(),
        any::<bool>(),
    )
        .prop_map(|(track_frac, bad_track, size_sel, size, dur_sel, dur, cts, sync)| RawOp { track_frac, bad_track, size_sel, size, dur_sel, dur, cts, sync })
}

#[derive(Clone, Debug)]
pub struct HistOpts {
    pub cts_from: u16, // fraction of the history after which non-zero cts may appear
    pub sync_mode: u8,
    pub size_mode: u8,
    /// log2 of the budget for a track's duration in movie ticks (62 for C01/C02)
    pub tick_bits: u32,
}

/// Assemble a history in the documented-valid domain (C01/C02/C14). Durations are adjusted by
/// construction so that every track's duration in movie ticks stays below 2^62 (histories beyond
/// that are not representable in any ISO file; C17 feeds them separately).
pub fn assemble_history(major: [u8; 4], minor: u32, compat: Vec<[u8; 4]>, movie_ts: u32, all_tracks: Vec<MTrack>, raw: Vec<RawOp>, o: &HistOpts) -> MuxCase {
    // track ids are handed out to the tracks add_track accepts, in order; configurations it must
    // reject (zero timescale, SPS shorter than 4 bytes, oversized parameter sets) get no id
    let tracks: Vec<MTrack> = all_tracks.iter().filter(|t| expect_accept(t)).cloned().collect();
    let n = tracks.len() as u32;
    let mut ops = Vec::new();
    let mut prev_size: Vec<u32> = vec![1; n as usize];
    let mut media_dur: Vec<u128> = vec![0; n as usize];
    let total = raw.len().max(1);
    for (i, r) in raw.iter().enumerate() {
        if let Some(b) = r.bad_track {
            let id = match b {
                0 => 0,
                1 => n + 1,
                _ => u32::MAX,
            };
            ops.push(MOp { track: id, size: r.size.min(8), dur: r.dur, cts: r.cts, sync: r.sync });
            continue;
        }
        if n == 0 {
            continue;
        }
        let ti = ((r.track_frac as u32 * n) >> 16) as usize;
        let t = &tracks[ti];
        let ts = if t.preset { 1000 } else { t.timescale };
        let size = match (o.size_mode, r.size_sel) {
            (1, _) => prev_size[ti],        // constant sizes
            (2, _) => 0,                    // all zero-length
            (_, 0) => 0,
            (_, 1..=4) => prev_size[ti],    // same as previous (keeps stsz in fixed mode for a while)
            _ => r.size,
        };
        prev_size[ti] = if size == 0 { prev_size[ti] } else { size };
        let third = (ts / 3).max(1);
        let mut dur = match r.dur_sel {
            0 => 0,
            1 => 1,
            2 | 3 => third,
            4 => ts.saturating_sub(1),
            5 | 6 => ts,
            7 => ts.saturating_add(1),
            8 => r.dur % (ts.min(5000) + 1),
            9 => r.dur,
            10 => u32::MAX,
            _ => 1u32 << 31,
        };
        // keep track duration (in movie ticks) below 2^62
        let limit: u128 = (((1u128 << o.tick_bits) * ts as u128) / movie_ts.max(1) as u128).min(1u128 << o.tick_bits);
        if media_dur[ti] + dur as u128 > limit {
            dur = (limit.saturating_sub(media_dur[ti])).min(dur as u128) as u32;
        }
        media_dur[ti] += dur as u128;
        let cts_allowed = (i * 65536 / total) as u16 >= o.cts_from;
        let cts = if cts_allowed { r.cts } else { 0 };
        let sync = match o.sync_mode {
            1 => false,
            2 => true,
            3 => i == 0,
            _ => r.sync,
        };
        ops.push(MOp { track: ti as u32 + 1, size, dur, cts, sync });
    }
    MuxCase { major, minor, compat, timescale: movie_ts, tracks: all_tracks, ops, sink: 0 }
}

/// a configuration add_track must reject
pub fn invalid_track() -> impl Strategy<Value = MTrack> {
    prop_oneof![
        (valid_kind(), lang3()).prop_map(|(kind, language)| MTrack { kind, timescale: 0, language, preset: false, ttype: 0 }),
        (prop::collection::vec(any::<u8>(), 0..4), lang3()).prop_map(|(sps, language)| MTrack { kind: MKind::Avc { width: 4, height: 4, sps, pps: vec![1] }, timescale: 1000, language, preset: false, ttype: 0 }),
        Just(MTrack { kind: MKind::Avc { width: 4, height: 4, sps: vec![1, 2, 3, 4], pps: vec![7; 65536] }, timescale: 1000, language: "und".into(), preset: false, ttype: 0 }),
    ]
}

pub fn valid_track() -> impl Strategy<Value = MTrack> {
    (valid_kind(), crate::gen::timescale_strategy(), lang3(), prop::bool::weighted(0.1), prop_oneof![5 => Just(0u8), 1 => 1u8..4]).prop_map(|(kind, timescale, language, preset, ttype)| MTrack { kind, timescale, language, preset, ttype: if preset { 0 } else { ttype } })
}

/// the sink a history is muxed into (see `MuxCase::sink`): mostly a plain cursor at position 0
pub fn sink_strategy() -> impl Strategy<Value = u32> {
    (
        prop_oneof![14 => Just(0u16), 1 => (1u16..=40, 0u16..3).prop_map(|(m, v)| m | (v << 8)), 1 => (1u16..8).prop_map(|l| l << 12), 1 => (1u16..=40, 1u16..8).prop_map(|(m, l)| m | (l << 12))],
        prop_oneof![12 => Just(0u32), 1 => 1u32..3000, 1 => Just(60_000u32)],
    )
        .prop_map(|(s, stale)| s as u32 | (stale << 16))
}

/// histories in the documented-valid domain
pub fn mux_history(max_tracks: usize, max_ops: usize, bad_weight: f64) -> impl Strategy<Value = MuxCase> {
    mux_history_bits(max_tracks, max_ops, bad_weight, 62)
}

pub fn mux_history_bits(max_tracks: usize, max_ops: usize, bad_weight: f64, tick_bits: u32) -> impl Strategy<Value = MuxCase> {
    (
        (crate::gen::cc_strategy(), any::<u32>(), prop::collection::vec(crate::gen::cc_strategy(), 0..4), crate::gen::timescale_strategy()),
        prop::collection::vec(if bad_weight > 0.0 { prop_oneof![9 => valid_track(), 1 => invalid_track()].boxed() } else { valid_track().boxed() }, 1..=max_tracks),
        prop::collection::vec(raw_op(bad_weight), 0..=max_ops),
        (prop_oneof![Just(0u16), any::<u16>(), Just(u16::MAX)], 0u8..5, prop_oneof![4 => Just(0u8), 1 => Just(1u8), 1 => Just(2u8)]),
        sink_strategy(),
    )
        .prop_map(move |((major, minor, compat, ts), tracks, raw, (cts_from, sync_mode, size_mode), sink)| {
            let mut c = assemble_history(major, minor, compat, ts, tracks, raw, &HistOpts { cts_from, sync_mode, size_mode, tick_bits });
            c.sink = sink;
            c
        })
}
