//! Instrumented streams: counting/budget, single-fault injection, short transfers, sparse storage.

use std::cell::Cell;
use std::collections::BTreeMap;
use std::io::{self, Read, Seek, SeekFrom, Write};
use std::rc::Rc;

pub const BUDGET_MARK: &str = "VERIF-BUDGET-EXHAUSTED";
pub const FAULT_MARK: &str = "VERIF-INJECTED-FAULT";

#[derive(Default, Debug)]
pub struct Stats {
    pub ops: Cell<u64>,
    pub reads: Cell<u64>,
    pub seeks: Cell<u64>,
    pub writes: Cell<u64>,
    pub bytes: Cell<u64>,
    pub budget_ops: Cell<u64>, // 0 = unlimited
    pub budget_hit: Cell<bool>,
}

impl Stats {
    pub fn reset(&self) {
        self.ops.set(0);
        self.reads.set(0);
        self.seeks.set(0);
        self.writes.set(0);
        self.bytes.set(0);
        self.budget_hit.set(false);
    }
    fn tick(&self) -> io::Result<()> {
        let n = self.ops.get() + 1;
        self.ops.set(n);
        let b = self.budget_ops.get();
        if b != 0 && n > b {
            self.budget_hit.set(true);
            return Err(io::Error::new(io::ErrorKind::Other, BUDGET_MARK));
        }
        Ok(())
    }
}

/// Counts every stream call; with a budget, a runaway loop is cut off by an io::Error and seen.
pub struct CountingStream<T> {
    pub inner: T,
    pub stats: Rc<Stats>,
}

impl<T> CountingStream<T> {
    pub fn new(inner: T, budget_ops: u64) -> (Self, Rc<Stats>) {
        let stats = Rc::new(Stats::default());
        stats.budget_ops.set(budget_ops);
        (CountingStream { inner, stats: stats.clone() }, stats)
    }
}

impl<T: Read> Read for CountingStream<T> {
    fn read(&mut self, buf: &mut [u8]) -> io::Result<usize> {
        self.stats.tick()?;
        self.stats.reads.set(self.stats.reads.get() + 1);
        let n = self.inner.read(buf)?;
        self.stats.bytes.set(self.stats.bytes.get() + n as u64);
        Ok(n)
    }
}
impl<T: Write> Write for CountingStream<T> {
    fn write(&mut self, buf: &[u8]) -> io::Result<usize> {
        self.stats.tick()?;
        self.stats.writes.set(self.stats.writes.get() + 1);
        let n = self.inner.write(buf)?;
        self.stats.bytes.set(self.stats.bytes.get() + n as u64);
        Ok(n)
    }
    fn flush(&mut self) -> io::Result<()> {
        self.inner.flush()
    }
}
impl<T: Seek> Seek for CountingStream<T> {
    fn seek(&mut self, pos: SeekFrom) -> io::Result<u64> {
        self.stats.tick()?;
        self.stats.seeks.set(self.stats.seeks.get() + 1);
        self.inner.seek(pos)
    }
}

// ------------------------------------------------------------------------------------------

#[derive(Debug, Clone, Copy, PartialEq, Eq, serde::Serialize, serde::Deserialize)]
pub enum FaultKind {
    /// the k-th call returns an io::Error carrying FAULT_MARK
    Error,
    /// if the k-th call is a read it returns Ok(0) (EOF); a write returns Ok(0); a seek fails like Error
    Zero,
}

pub struct FaultStats {
    pub calls: Cell<u64>,
    /// 0-based index (counting reads, writes and seeks) of the call that fails; u64::MAX = never
    pub at: Cell<u64>,
    pub fired: Cell<bool>,
    /// what kind of call the fault hit: 'r', 'w', 's'
    pub fired_on: Cell<u8>,
}

impl FaultStats {
    /// re-arm: the call with index `rel` counted from now fails
    pub fn arm(&self, rel: u64) {
        self.calls.set(0);
        self.at.set(rel);
        self.fired.set(false);
        self.fired_on.set(0);
    }
}

/// Fails exactly one call: the one with index `at` (counting reads, writes and seeks).
pub struct FaultStream<T> {
    pub inner: T,
    pub kind: FaultKind,
    pub stats: Rc<FaultStats>,
}

impl<T> FaultStream<T> {
    pub fn new(inner: T, at: u64, kind: FaultKind) -> (Self, Rc<FaultStats>) {
        let stats = Rc::new(FaultStats { calls: Cell::new(0), at: Cell::new(at), fired: Cell::new(false), fired_on: Cell::new(0) });
        (FaultStream { inner, kind, stats: stats.clone() }, stats)
    }
    fn hit(&self, on: u8) -> bool {
        let c = self.stats.calls.get();
        self.stats.calls.set(c + 1);
        if c == self.stats.at.get() {
            self.stats.fired.set(true);
            self.stats.fired_on.set(on);
            true
        } else {
            false
        }
    }
}

fn fault_err() -> io::Error {
    io::Error::new(io::ErrorKind::Other, FAULT_MARK)
}

impl<T: Read> Read for FaultStream<T> {
    fn read(&mut self, buf: &mut [u8]) -> io::Result<usize> {
        if self.hit(b'r') {
            return match self.kind {
                FaultKind::Error => Err(fault_err()),
                FaultKind::Zero => Ok(0),
            };
        }
        self.inner.read(buf)
    }
}
impl<T: Write> Write for FaultStream<T> {
    fn write(&mut self, buf: &[u8]) -> io::Result<usize> {
        if self.hit(b'w') {
            return match self.kind {
                FaultKind::Error => Err(fault_err()),
                FaultKind::Zero => Ok(0),
            };
        }
        self.inner.write(buf)
    }
    fn flush(&mut self) -> io::Result<()> {
        self.inner.flush()
    }
}
impl<T: Seek> Seek for FaultStream<T> {
    fn seek(&mut self, pos: SeekFrom) -> io::Result<u64> {
        if self.hit(b's') {
            return Err(fault_err());
        }
        self.inner.seek(pos)
    }
}

// ------------------------------------------------------------------------------------------

/// Legal-but-awkward stream: each transfer moves at most `limit(call)` bytes and some calls
/// report ErrorKind::Interrupted first. Deterministic in (pattern, call index).
pub struct ShortStream<T> {
    pub inner: T,
    pub max: usize,        // upper bound on bytes per call (>=1)
    pub vary: u64,         // 0 = always `max`; otherwise per-call limit in 1..=max derived from call index
    pub interrupt_every: u64, // 0 = never; otherwise every n-th data call is preceded by Interrupted
    calls: u64,
    pending_interrupt: bool,
}

impl<T> ShortStream<T> {
    pub fn new(inner: T, max: usize, vary: u64, interrupt_every: u64) -> Self {
        ShortStream { inner, max: max.max(1), vary, interrupt_every, calls: 0, pending_interrupt: true }
    }
    fn limit(&mut self) -> io::Result<usize> {
        self.calls += 1;
        if self.interrupt_every != 0 && self.calls % self.interrupt_every == 0 {
            if self.pending_interrupt {
                self.pending_interrupt = false;
                self.calls -= 1;
                return Err(io::Error::new(io::ErrorKind::Interrupted, "interrupted"));
            }
            self.pending_interrupt = true;
        }
        if self.vary == 0 {
            Ok(self.max)
        } else {
            let x = crate::engine::splitmix(self.vary ^ self.calls);
            Ok(1 + (x % self.max as u64) as usize)
        }
    }
}

impl<T: Read> Read for ShortStream<T> {
    fn read(&mut self, buf: &mut [u8]) -> io::Result<usize> {
        let l = self.limit()?;
        let n = buf.len().min(l);
        self.inner.read(&mut buf[..n])
    }
}
impl<T: Write> Write for ShortStream<T> {
    fn write(&mut self, buf: &[u8]) -> io::Result<usize> {
        let l = self.limit()?;
        let n = buf.len().min(l);
        self.inner.write(&buf[..n])
    }
    fn flush(&mut self) -> io::Result<()> {
        self.inner.flush()
    }
}
impl<T: Seek> Seek for ShortStream<T> {
    fn seek(&mut self, pos: SeekFrom) -> io::Result<u64> {
        self.inner.seek(pos)
    }
}

// ------------------------------------------------------------------------------------------

#[derive(Clone, Debug)]
enum Ext {
    Bytes(Vec<u8>),
    Fill(u8, u64),
}

impl Ext {
    fn len(&self) -> u64 {
        match self {
            Ext::Bytes(v) => v.len() as u64,
            Ext::Fill(_, n) => *n,
        }
    }
    fn slice(&self, from: u64, to: u64) -> Ext {
        match self {
            Ext::Bytes(v) => Ext::Bytes(v[from as usize..to as usize].to_vec()),
            Ext::Fill(b, _) => Ext::Fill(*b, to - from),
        }
    }
}

/// Read+Write+Seek over a map of extents; uniform writes are stored run-length encoded, so a
/// >4 GiB mdat costs a few KB. Unwritten holes read as zero.
#[derive(Default, Debug)]
pub struct SparseStream {
    ext: BTreeMap<u64, Ext>,
    pub pos: u64,
    pub len: u64,
    pub bytes_written: u64,
}

impl SparseStream {
    pub fn new() -> Self {
        Self::default()
    }

    fn carve(&mut self, start: u64, end: u64) {
        // remove [start,end) from existing extents, splitting where needed
        let keys: Vec<u64> = self
            .ext
            .range(..end)
            .filter(|(k, e)| **k + e.len() > start)
            .map(|(k, _)| *k)
            .collect();
        for k in keys {
            let e = self.ext.remove(&k).unwrap();
            let e_end = k + e.len();
            if k < start {
                self.ext.insert(k, e.slice(0, start - k));
            }
            if e_end > end {
                self.ext.insert(end, e.slice(end - k, e_end - k));
            }
        }
    }

    /// materialise [start, start+len) (small ranges only: header bytes)
    pub fn read_range(&self, start: u64, len: usize) -> Vec<u8> {
        let mut out = vec![0u8; len];
        let end = start + len as u64;
        for (k, e) in self.ext.range(..end) {
            let e_end = *k + e.len();
            if e_end <= start {
                continue;
            }
            let a = start.max(*k);
            let b = end.min(e_end);
            let dst = &mut out[(a - start) as usize..(b - start) as usize];
            match e {
                Ext::Bytes(v) => dst.copy_from_slice(&v[(a - *k) as usize..(b - *k) as usize]),
                Ext::Fill(x, _) => dst.iter_mut().for_each(|d| *d = *x),
            }
        }
        out
    }

    /// number of extents (for evidence)
    pub fn extents(&self) -> usize {
        self.ext.len()
    }
}

impl Write for SparseStream {
    fn write(&mut self, buf: &[u8]) -> io::Result<usize> {
        if buf.is_empty() {
            return Ok(0);
        }
        let start = self.pos;
        let end = start + buf.len() as u64;
        self.carve(start, end);
        let uniform = buf.len() >= 4096 && buf.iter().all(|b| *b == buf[0]);
        if uniform {
            self.ext.insert(start, Ext::Fill(buf[0], buf.len() as u64));
        } else {
            self.ext.insert(start, Ext::Bytes(buf.to_vec()));
        }
        self.pos = end;
        self.len = self.len.max(end);
        self.bytes_written += buf.len() as u64;
        Ok(buf.len())
    }
    fn flush(&mut self) -> io::Result<()> {
        Ok(())
    }
}

impl Read for SparseStream {
    fn read(&mut self, buf: &mut [u8]) -> io::Result<usize> {
        if self.pos >= self.len || buf.is_empty() {
            return Ok(0);
        }
        let n = (buf.len() as u64).min(self.len - self.pos) as usize;
        let start = self.pos;
        let end = start + n as u64;
        buf[..n].iter_mut().for_each(|b| *b = 0);
        for (k, e) in self.ext.range(..end) {
            let e_end = *k + e.len();
            if e_end <= start {
                continue;
            }
            let a = start.max(*k);
            let b = end.min(e_end);
            let dst = &mut buf[(a - start) as usize..(b - start) as usize];
            match e {
                Ext::Bytes(v) => dst.copy_from_slice(&v[(a - *k) as usize..(b - *k) as usize]),
                Ext::Fill(x, _) => dst.iter_mut().for_each(|d| *d = *x),
            }
        }
        self.pos = end;
        Ok(n)
    }
}

impl Seek for SparseStream {
    fn seek(&mut self, pos: SeekFrom) -> io::Result<u64> {
        let np: i128 = match pos {
            SeekFrom::Start(p) => p as i128,
            SeekFrom::Current(d) => self.pos as i128 + d as i128,
            SeekFrom::End(d) => self.len as i128 + d as i128,
        };
        if np < 0 || np > u64::MAX as i128 {
            return Err(io::Error::new(io::ErrorKind::InvalidInput, "seek out of range"));
        }
        self.pos = np as u64;
        Ok(self.pos)
    }
}


/// Read + Seek over `bytes` with `gap.1` zero bytes spliced in at index `gap.0`, without
/// materialising them: serves files larger than 4 GiB (refmp4 `Built::gap`).
pub struct GapStream {
    pub bytes: Vec<u8>,
    pub gap: (usize, u64),
    pos: u64,
}

impl GapStream {
    pub fn new(bytes: Vec<u8>, gap: Option<(usize, u64)>) -> Self {
        let gap = gap.unwrap_or((bytes.len(), 0));
        GapStream { bytes, gap, pos: 0 }
    }
    pub fn len(&self) -> u64 {
        self.bytes.len() as u64 + self.gap.1
    }
}

impl Read for GapStream {
    fn read(&mut self, buf: &mut [u8]) -> io::Result<usize> {
        let (g0, glen) = (self.gap.0 as u64, self.gap.1);
        if buf.is_empty() || self.pos >= self.len() {
            return Ok(0);
        }
        if self.pos < g0 {
            let n = ((g0 - self.pos) as usize).min(buf.len());
            let at = self.pos as usize;
            buf[..n].copy_from_slice(&self.bytes[at..at + n]);
            self.pos += n as u64;
            Ok(n)
        } else if self.pos < g0 + glen {
            let n = ((g0 + glen - self.pos).min(buf.len() as u64)) as usize;
            buf[..n].iter_mut().for_each(|b| *b = 0);
            self.pos += n as u64;
            Ok(n)
        } else {
            let at = (self.pos - glen) as usize;
            let n = (self.bytes.len() - at).min(buf.len());
            buf[..n].copy_from_slice(&self.bytes[at..at + n]);
            self.pos += n as u64;
            Ok(n)
        }
    }
}

impl Seek for GapStream {
    fn seek(&mut self, p: SeekFrom) -> io::Result<u64> {
        let target: i128 = match p {
            SeekFrom::Start(x) => x as i128,
            SeekFrom::Current(d) => self.pos as i128 + d as i128,
            SeekFrom::End(d) => self.len() as i128 + d as i128,
        };
        if target < 0 {
            return Err(io::Error::new(io::ErrorKind::InvalidInput, "seek before start"));
        }
        self.pos = target.min(u64::MAX as i128) as u64;
        Ok(self.pos)
    }
}
