//! C03 — sample lookup in non-fragmented files follows ISO sample-table semantics.
use super::PropMeta;
use crate::engine::{Check, Ctx, Failure, Fnv};
use crate::gen;
use crate::oracle::{check_built, SampleCheckOpts};
use crate::refmp4::movie::{build, stsc_entries, Movie};
use proptest::test_runner::{Config, RngAlgorithm, TestRng, TestRunner};
use serde_json::Value;

pub const META: PropMeta = PropMeta {
    level: "exploration",
    rule: "files are synthesised by the independent reference encoder from a logical movie; small scope: every composition of N samples into chunks x every run-length grouping of the chunk map (N<=Nmax) x D draws of the other dimensions (stco/co64, fixed/variable/zero sizes, stts/ctts run splits, sync subset/none, 1-3 tracks, interleaved chunks, mdat before/after moov), plus random larger movies (one sample in ~50 movies sized 65535..200003 bytes; in 8% the final mdat has size field 0 = to end of file). Every file is read twice on one reader, ascending then descending. Non-trivial = some track has N>=3 samples and (>=2 chunks with different samples-per-chunk, or a non-minimal stsc grouping). Distinct = fingerprint of (chunk map, stsc entries, sizes, durations, offsets, flags) of all tracks.",
    assumptions: &["the reference encoder (refmp4) renders ISO/IEC 14496-12 sample tables correctly; it shares no code with the library", "sample payloads are a deterministic non-zero pattern of (track, index, byte)"],
};

const OPTS: SampleCheckOpts = SampleCheckOpts { check_sync: true, prefix: "c03" };

pub fn fingerprint(m: &Movie) -> u64 {
    let mut h = Fnv::new();
    for t in &m.tracks {
        h.write_u64(t.samples.len() as u64);
        for c in &t.chunks {
            h.write_u64(*c as u64);
        }
        for e in stsc_entries(t) {
            h.write_u64(e.0 as u64);
        }
        for s in &t.samples {
            h.write_u64(s.size as u64 ^ ((s.dur as u64) << 32));
            h.write_u64(s.cts as u32 as u64 ^ ((s.sync as u64) << 40));
        }
        h.write_u64(t.co64 as u64 | (t.fixed_stsz as u64) << 1 | (t.has_ctts as u64) << 2 | (t.has_stss as u64) << 3);
    }
    h.write_u64(m.interleave ^ ((m.gap as u64) << 50) ^ ((m.mdat_first as u64) << 60));
    h.finish()
}

pub fn classify(ctx: &mut Ctx, m: &Movie) -> bool {
    let mut nontrivial = false;
    for t in &m.tracks {
        let n = t.samples.len();
        let entries = stsc_entries(t);
        let minimal = {
            let mut c = 0;
            for i in 0..t.chunks.len() {
                if i == 0 || t.chunks[i] != t.chunks[i - 1] {
                    c += 1;
                }
            }
            c
        };
        let varied = t.chunks.windows(2).any(|w| w[0] != w[1]);
        let nonmin = entries.len() > minimal;
        if n >= 3 && (varied || nonmin) {
            nontrivial = true;
        }
        if t.chunks.len() >= 2 {
            ctx.count("track:chunks>=2");
        }
        if varied {
            ctx.count("track:varied-samples-per-chunk");
        }
        if nonmin {
            ctx.count("track:non-minimal-stsc");
        }
        if t.co64 {
            ctx.count("track:co64");
        }
        if t.samples.iter().any(|s| s.size == 0) {
            ctx.count("track:zero-size-sample");
        }
        if t.samples.iter().any(|x| x.size > 65_535) {
            ctx.count("track:sample>=64KiB");
        }
        if t.fixed_stsz && n > 0 && t.samples.iter().all(|s| s.size == t.samples[0].size && s.size > 0) {
            ctx.count("track:constant-stsz");
        }
        if !t.has_stss {
            ctx.count("track:no-stss");
        }
        if t.has_ctts {
            ctx.count("track:ctts");
        }
        if n == 0 {
            ctx.count("track:empty");
        }
        if n > 64 {
            ctx.count("track:n>64");
        }
        if t.elst.is_some() {
            ctx.count("track:edit-list");
        }
    }
    if m.mehd.is_some() && m.frags.is_empty() {
        ctx.count("movie:mvex-in-a-file-without-fragments");
    }
    if m.tracks.len() > 1 {
        ctx.count("movie:multi-track");
        if m.interleave != 0 {
            ctx.count("movie:interleaved");
        }
    }
    if m.mdat_first {
        ctx.count("movie:mdat-first");
    } else if m.last_to_eof {
        ctx.count("movie:last-mdat-with-size-0(to-end-of-file)");
    }
    if m.huge.is_some() {
        ctx.count("movie:file-larger-than-4GiB");
    }
    nontrivial
}

pub fn oracle(ctx: &mut Ctx, m: &Movie) -> Check {
    let built = build(m);
    if classify(ctx, m) {
        ctx.nontrivial(fingerprint(m));
        ctx.sample("nontrivial", m);
    } else {
        ctx.sample("trivial", m);
    }
    check_built(m, &built, &OPTS)
}

pub fn run(ctx: &mut Ctx) {
    // ---- small scope, exhaustive over chunk structure ----
    ctx.stage("enum");
    let nmax = ctx.pick(8usize, 10usize);
    let draws = ctx.pick(8u64, 16u64);
    let base_seed = ctx.stage_seed(false);
    let mut idx: u64 = 0;
    let weak = (
        gen::track_opts(),
        proptest::collection::vec(gen::raw_sample(), 12),
        gen::codec_strategy(),
        gen::timescale_strategy(),
        // optional second track (to interleave with)
        proptest::option::weighted(0.4, gen::table_track(2, 5)),
        proptest::prelude::any::<bool>(),
        proptest::prelude::any::<u64>(),
        0u8..3,
    );
    for n in 0..=nmax {
        for comp in gen::compositions(n) {
            for grouping in gen::groupings(&comp) {
                for d in 0..draws {
                    let my = idx;
                    idx += 1;
                    if !ctx.enter(my) {
                        continue;
                    }
                    // the weakly interacting dimensions are drawn by proptest from a per-case stream
                    let mut seed = base_seed;
                    let mixed = my ^ u64::from_le_bytes(seed[..8].try_into().unwrap());
                    seed[..8].copy_from_slice(&mixed.to_le_bytes());
                    let mut runner = TestRunner::new_with_rng(Config::default(), TestRng::from_seed(RngAlgorithm::ChaCha, &seed));
                    let (opts, raw, codec, ts, second, mdat_first, interleave, gap) = gen::draw(&weak, &mut runner);
                    let mut t = gen::assemble_track(1, codec, ts, *b"und", &raw[..n], &opts);
                    t.chunks = comp.clone();
                    t.stsc_breaks = grouping.clone();
                    let mut tracks = vec![t];
                    if let Some(mut t2) = second {
                        t2.id = 2;
                        tracks.push(t2);
                    }
                    let mut m = gen::movie_shell(tracks);
                    m.mdat_first = mdat_first;
                    m.interleave = if d % 2 == 0 { 0 } else { interleave | 1 };
                    m.gap = gap;
                    let res = oracle(ctx, &m);
                    ctx.judge(&m, res);
                }
            }
        }
    }
    ctx.extra.insert("enum_nmax".into(), serde_json::json!(nmax));
    ctx.extra.insert("enum_cases_total".into(), serde_json::json!(idx));
    // ---- random larger movies ----
    ctx.stage("random");
    let cases = ctx.pick(100_000u32, 1_000_000u32) / ctx.nshards;
    let maxn = ctx.pick(120usize, 1500usize);
    ctx.run_prop(gen::with_big_sample(gen::table_movie(3, maxn), 0.02), cases, |ctx, m| oracle(ctx, m));
}

pub fn replay(ctx: &mut Ctx, _stage: &str, case: &Value) -> Check {
    let m: Movie = serde_json::from_value(case.clone()).map_err(|e| Failure::new("replay:bad-case", e.to_string()))?;
    oracle(ctx, &m)
}
