//! C16 — code and enumeration mappings are exact over their whole domain (exhaustive).
use super::PropMeta;
use crate::engine::{Check, Ctx, Failure};
use crate::refmp4::{self, cc};
use crate::{ensure, fail};
use mp4::{BoxType, FourCC, ReadBox, WriteBox};
use serde_json::{json, Value};
use std::collections::{BTreeMap, BTreeSet};
use std::convert::TryFrom;
use std::io::Cursor;
use std::str::FromStr;

pub const META: PropMeta = PropMeta {
    level: "exploration",
    rule: "complete enumeration of each finite domain against tables written in the harness from the specifications: all 2^32 codes for u32->BoxType->u32, u32->FourCC->u32, BoxType->FourCC and TrackType::try_from(&FourCC); named BoxType variants <-> registered four characters; textual form (Display/FromStr/Debug) for every code whose four bytes are valid UTF-8 in the enumerated text domain (quick: all printable-ASCII codes + a 2^24 stride sample of the rest; thorough: all 2^32); all 2^16 packed language codes through MdhdBox decode/encode and all 26^3 three-letter strings; FixedPointU8/I8 over all 2^8/2^16 values, FixedPointU16 over all 2^16 values of new() and (thorough) all 2^32 of new_raw(); all 2^16 AvcProfile pairs; all 256 bytes of AudioObjectType, SampleFreqIndex (+freq()), ChannelConfig; DataType (quick: boundaries + stride, thorough: all 2^32); MediaType/TrackType string tables over all strings of length <= 4 from a 14-letter alphabet. Every enumerated point is one case; non-trivial = the point is in a mapping's accepted set or adjacent to it (+-1 or one bit flipped); distinct_nontrivial counts those points.",
    assumptions: &["for codes whose bytes are not valid UTF-8 the textual form is necessarily lossy; nothing is asserted about FromStr(Display(c)) there", "value() of a signed 8.8 value is the integer part of raw/256 truncated toward zero (how the wrapper defines it: Ratio::to_integer)"],
};

/// registered four-character codes of the named box types (from ISO/IEC 14496-12/-14/-15, 3GPP, VP9, iTunes)
const NAMED: [(&str, [u8; 4]); 56] = [
    ("FtypBox", *b"ftyp"), ("MvhdBox", *b"mvhd"), ("MfhdBox", *b"mfhd"), ("FreeBox", *b"free"), ("MdatBox", *b"mdat"), ("MoovBox", *b"moov"), ("MvexBox", *b"mvex"), ("MehdBox", *b"mehd"),
    ("TrexBox", *b"trex"), ("EmsgBox", *b"emsg"), ("MoofBox", *b"moof"), ("TkhdBox", *b"tkhd"), ("TfhdBox", *b"tfhd"), ("TfdtBox", *b"tfdt"), ("EdtsBox", *b"edts"), ("MdiaBox", *b"mdia"),
    ("ElstBox", *b"elst"), ("MdhdBox", *b"mdhd"), ("HdlrBox", *b"hdlr"), ("MinfBox", *b"minf"), ("VmhdBox", *b"vmhd"), ("StblBox", *b"stbl"), ("StsdBox", *b"stsd"), ("SttsBox", *b"stts"),
    ("CttsBox", *b"ctts"), ("StssBox", *b"stss"), ("StscBox", *b"stsc"), ("StszBox", *b"stsz"), ("StcoBox", *b"stco"), ("Co64Box", *b"co64"), ("TrakBox", *b"trak"), ("TrafBox", *b"traf"),
    ("TrunBox", *b"trun"), ("UdtaBox", *b"udta"), ("MetaBox", *b"meta"), ("DinfBox", *b"dinf"), ("DrefBox", *b"dref"), ("UrlBox", *b"url "), ("SmhdBox", *b"smhd"), ("Avc1Box", *b"avc1"),
    ("AvcCBox", *b"avcC"), ("Hev1Box", *b"hev1"), ("HvcCBox", *b"hvcC"), ("Mp4aBox", *b"mp4a"), ("EsdsBox", *b"esds"), ("Tx3gBox", *b"tx3g"), ("VpccBox", *b"vpcC"), ("Vp09Box", *b"vp09"),
    ("DataBox", *b"data"), ("IlstBox", *b"ilst"), ("NameBox", [0xa9, b'n', b'a', b'm']), ("DayBox", [0xa9, b'd', b'a', b'y']), ("CovrBox", *b"covr"), ("DescBox", *b"desc"), ("WideBox", *b"wide"), ("WaveBox", *b"wave"),
];

fn named_variant(name: &str) -> BoxType {
    match name {
        "FtypBox" => BoxType::FtypBox, "MvhdBox" => BoxType::MvhdBox, "MfhdBox" => BoxType::MfhdBox, "FreeBox" => BoxType::FreeBox, "MdatBox" => BoxType::MdatBox, "MoovBox" => BoxType::MoovBox,
        "MvexBox" => BoxType::MvexBox, "MehdBox" => BoxType::MehdBox, "TrexBox" => BoxType::TrexBox, "EmsgBox" => BoxType::EmsgBox, "MoofBox" => BoxType::MoofBox, "TkhdBox" => BoxType::TkhdBox,
        "TfhdBox" => BoxType::TfhdBox, "TfdtBox" => BoxType::TfdtBox, "EdtsBox" => BoxType::EdtsBox, "MdiaBox" => BoxType::MdiaBox, "ElstBox" => BoxType::ElstBox, "MdhdBox" => BoxType::MdhdBox,
        "HdlrBox" => BoxType::HdlrBox, "MinfBox" => BoxType::MinfBox, "VmhdBox" => BoxType::VmhdBox, "StblBox" => BoxType::StblBox, "StsdBox" => BoxType::StsdBox, "SttsBox" => BoxType::SttsBox,
        "CttsBox" => BoxType::CttsBox, "StssBox" => BoxType::StssBox, "StscBox" => BoxType::StscBox, "StszBox" => BoxType::StszBox, "StcoBox" => BoxType::StcoBox, "Co64Box" => BoxType::Co64Box,
        "TrakBox" => BoxType::TrakBox, "TrafBox" => BoxType::TrafBox, "TrunBox" => BoxType::TrunBox, "UdtaBox" => BoxType::UdtaBox, "MetaBox" => BoxType::MetaBox, "DinfBox" => BoxType::DinfBox,
        "DrefBox" => BoxType::DrefBox, "UrlBox" => BoxType::UrlBox, "SmhdBox" => BoxType::SmhdBox, "Avc1Box" => BoxType::Avc1Box, "AvcCBox" => BoxType::AvcCBox, "Hev1Box" => BoxType::Hev1Box,
        "HvcCBox" => BoxType::HvcCBox, "Mp4aBox" => BoxType::Mp4aBox, "EsdsBox" => BoxType::EsdsBox, "Tx3gBox" => BoxType::Tx3gBox, "VpccBox" => BoxType::VpccBox, "Vp09Box" => BoxType::Vp09Box,
        "DataBox" => BoxType::DataBox, "IlstBox" => BoxType::IlstBox, "NameBox" => BoxType::NameBox, "DayBox" => BoxType::DayBox, "CovrBox" => BoxType::CovrBox, "DescBox" => BoxType::DescBox,
        "WideBox" => BoxType::WideBox, "WaveBox" => BoxType::WaveBox,
        _ => unreachable!(),
    }
}

fn neighbours(set: &[u32]) -> BTreeSet<u32> {
    let mut out = BTreeSet::new();
    for &c in set {
        out.insert(c);
        out.insert(c.wrapping_add(1));
        out.insert(c.wrapping_sub(1));
        for b in 0..32 {
            out.insert(c ^ (1 << b));
        }
    }
    out
}

const FREQ_TABLE: [u32; 13] = [96000, 88200, 64000, 48000, 44100, 32000, 24000, 22050, 16000, 12000, 11025, 8000, 7350];

struct Acc<'a> {
    ctx: &'a mut Ctx,
    evals: u64,
    nontrivial: u64,
    fails: BTreeMap<String, (String, Value)>,
}

impl<'a> Acc<'a> {
    fn fail(&mut self, sig: &str, detail: String, case: Value) {
        self.fails.entry(sig.to_string()).or_insert((detail, case));
    }
}

fn check_text(a: &mut Acc, c: u32) {
    let f = FourCC::from(c);
    let bytes = c.to_be_bytes();
    let s = f.to_string();
    if let Ok(txt) = std::str::from_utf8(&bytes) {
        if s != txt {
            a.fail("c16:fourcc-display", format!("Display of {:#010x} is {:?}, expected {:?}", c, s, txt), json!({"code": c}));
        }
        match FourCC::from_str(&s) {
            Ok(g) if g == f => {}
            other => a.fail("c16:fourcc-fromstr", format!("FromStr(Display({:#010x})) = {:?}", c, other.map(|x| x.value)), json!({"code": c})),
        }
        let bt = BoxType::from(c);
        if bt.to_string() != txt {
            a.fail("c16:boxtype-display", format!("BoxType Display of {:#010x} is {:?}", c, bt.to_string()), json!({"code": c}));
        }
        let dbg = format!("{:?}", f);
        let want = format!("{} / {:#010X}", txt, c);
        if dbg != want {
            a.fail("c16:fourcc-debug", format!("Debug {:?} != {:?}", dbg, want), json!({"code": c}));
        }
    }
}

fn numeric_range(a: &mut Acc, lo: u64, hi: u64, named: &BTreeMap<u32, BoxType>, nt_box: &BTreeSet<u32>, nt_tt: &BTreeSet<u32>, text_all: bool) {
    let vide = u32::from_be_bytes(*b"vide");
    let soun = u32::from_be_bytes(*b"soun");
    let sbtl = u32::from_be_bytes(*b"sbtl");
    for c64 in lo..hi {
        let c = c64 as u32;
        let bt = BoxType::from(c);
        let back: u32 = bt.into();
        if back != c {
            a.fail("c16:boxtype-roundtrip", format!("u32 -> BoxType -> u32: {:#010x} -> {:#010x}", c, back), json!({"code": c}));
        }
        let is_unknown = matches!(bt, BoxType::UnknownBox(_));
        // Which codes have a named variant is not part of the property (a new box type with a
        // lossless mapping is fine); a code of the harness' table decoding as Unknown only matters
        // through the round trip above. Kept as a coverage class, not as an oracle.
        let _ = (is_unknown, named);
        let f = FourCC::from(c);
        if f.value != c.to_be_bytes() || u32::from(f) != c || u32::from(&f) != c {
            a.fail("c16:fourcc-roundtrip", format!("u32 -> FourCC -> u32 differs for {:#010x}", c), json!({"code": c}));
        }
        let f2: FourCC = bt.into();
        if f2 != f {
            a.fail("c16:boxtype-to-fourcc", format!("BoxType -> FourCC differs for {:#010x}", c), json!({"code": c}));
        }
        // TrackType::try_from(&FourCC): accepted exactly {vide, soun, sbtl}
        let tt = mp4::TrackType::try_from(&f);
        let want = if c == vide { Some("Video") } else if c == soun { Some("Audio") } else if c == sbtl { Some("Subtitle") } else { None };
        match (tt, want) {
            (Ok(t), Some(w)) if t.to_string() == w => {}
            (Err(_), None) => {}
            (t, w) => a.fail("c16:tracktype-fourcc", format!("TrackType::try_from({:#010x}) = {:?}, expected {:?}", c, t.ok().map(|x| x.to_string()), w), json!({"code": c})),
        }
        let ascii = c.to_be_bytes().iter().all(|b| (0x20..0x7f).contains(b));
        if text_all || ascii || c & 0xff == 0x5a {
            check_text(a, c);
            a.evals += 1;
        }
    }
    // each code is enumerated exactly once: the non-trivial points of this slice are those of the
    // (precomputed) neighbourhood sets that fall into [lo, hi)
    let both: BTreeSet<u32> = nt_box.union(nt_tt).copied().collect();
    a.nontrivial += both.iter().filter(|c| (**c as u64) >= lo && (**c as u64) < hi).count() as u64;
    a.evals += hi - lo;
}

/// the same mapping as a user meets it: `Mp4Track::language()` of a whole file opened through
/// `Mp4Reader::read_header`, for every packed word and for several major brands (the language field
/// means the same thing in all of them for this library, which has no QuickTime mode)
fn file_lang(a: &mut Acc, lo: u32, hi: u32, only_brand: Option<usize>) {
    const BRANDS: [&[u8; 4]; 6] = [b"isom", b"qt  ", b"mp42", b"M4A ", b"3gp4", b"dash"];
    for (bi, brand) in BRANDS.iter().enumerate() {
        if only_brand.map_or(false, |o| o != bi) {
            continue;
        }
        let mut runner = crate::gen::fixed_runner(16);
        let t = crate::gen::draw(&crate::gen::table_track(1, 2), &mut runner);
        let mut m = crate::gen::movie_shell(vec![t]);
        m.major = **brand;
        let mut bytes = refmp4::movie::build(&m).bytes;
        let Some(p) = bytes.windows(4).position(|w| w == b"mdhd") else {
            a.fail("c16:file-lang-harness", "no mdhd in the reference file".into(), json!({}));
            return;
        };
        // version-0 mdhd: fourcc, version/flags, 4 x u32, language word
        let at = p + 4 + 4 + 16;
        for code in lo..hi {
            let code = code as u16;
            bytes[at..at + 2].copy_from_slice(&code.to_be_bytes());
            let len = bytes.len() as u64;
            let b2 = bytes.clone();
            let got = match crate::engine::guard(move || mp4::Mp4Reader::read_header(Cursor::new(b2), len).map(|r| r.tracks().get(&1).map(|t| t.language().to_string()))) {
                Ok(Ok(Some(l))) => l,
                other => {
                    a.fail("c16:file-lang-open", format!("brand {:?}, language word {:#06x}: {:?}", String::from_utf8_lossy(*brand), code, other.map(|r| r.map_err(|e| e.to_string()))), json!({"file_lang_code": code, "brand": bi}));
                    continue;
                }
            };
            let want: String = refmp4::unpack_lang(code).iter().map(|b| *b as char).collect();
            if got != want {
                a.fail("c16:file-lang", format!("file with major brand {:?}: language word {:#06x} is reported as {:?}, expected {:?}", String::from_utf8_lossy(*brand), code, got, want), json!({"file_lang_code": code, "brand": bi}));
            }
            a.evals += 1;
        }
    }
}

fn mdhd_lang(a: &mut Acc, lo: u32, hi: u32) {
    for code in lo..hi {
        let code = code as u16;
        // reference-encoded mdhd v0 with this raw language word
        let mut payload = refmp4::enc_mdhd(0, 0, 1, 2, 1000, 5, b"und");
        let n = payload.len();
        payload[n - 4..n - 2].copy_from_slice(&code.to_be_bytes());
        let bytes = refmp4::Node::leaf("mdhd", payload).render();
        let mut cur = Cursor::new(&bytes[..]);
        let hdr = mp4::BoxHeader::read(&mut cur).unwrap();
        let v = match crate::engine::guard(|| mp4::MdhdBox::read_box(&mut cur, hdr.size)) {
            Ok(Ok(v)) => v,
            other => {
                a.fail("c16:lang-decode-error", format!("mdhd with language word {:#06x}: {:?}", code, other.map(|r| r.map(|_| ()).map_err(|e| e.to_string()))), json!({"lang_code": code}));
                continue;
            }
        };
        let want: String = refmp4::unpack_lang(code).iter().map(|b| *b as char).collect();
        if v.language != want {
            a.fail("c16:lang-decode", format!("language word {:#06x} decodes to {:?}, expected {:?}", code, v.language, want), json!({"lang_code": code}));
        }
        let mut out = Vec::new();
        match crate::engine::guard(|| v.write_box(&mut out)) {
            Ok(Ok(_)) => {
                let back = u16::from_be_bytes([out[out.len() - 4], out[out.len() - 3]]);
                if back != code & 0x7fff {
                    a.fail("c16:lang-encode", format!("language {:?} encodes to {:#06x}, expected {:#06x}", v.language, back, code & 0x7fff), json!({"lang_code": code}));
                }
            }
            other => a.fail("c16:lang-encode-error", format!("{:?}", other.map(|r| r.map_err(|e| e.to_string()))), json!({"lang_code": code})),
        }
        a.evals += 1;
        // accepted set of "proper" codes = three lowercase letters; adjacent = within one of a letter range
        let l = refmp4::unpack_lang(code);
        if code < 0x8000 && l.iter().all(|b| (0x60..=0x7b).contains(b)) {
            a.nontrivial += 1;
        }
    }
}

fn letters3(a: &mut Acc, shard: u32, nshards: u32) {
    let mut i = 0u32;
    for x in b'a'..=b'z' {
        for y in b'a'..=b'z' {
            for z in b'a'..=b'z' {
                i += 1;
                if i % nshards != shard {
                    continue;
                }
                let s: String = [x as char, y as char, z as char].iter().collect();
                let v = mp4::MdhdBox { language: s.clone(), ..Default::default() };
                let mut out = Vec::new();
                if v.write_box(&mut out).is_err() {
                    a.fail("c16:lang3-encode-error", s.clone(), json!({"lang": s}));
                    continue;
                }
                let got = u16::from_be_bytes([out[out.len() - 4], out[out.len() - 3]]);
                let want = refmp4::pack_lang(&[x, y, z]);
                if got != want {
                    a.fail("c16:lang3-encode", format!("{:?} packs to {:#06x}, expected {:#06x}", s, got, want), json!({"lang": s}));
                }
                let mut cur = Cursor::new(&out[..]);
                let hdr = mp4::BoxHeader::read(&mut cur).unwrap();
                match mp4::MdhdBox::read_box(&mut cur, hdr.size) {
                    Ok(r) if r.language == s => {}
                    other => a.fail("c16:lang3-roundtrip", format!("{:?} reads back as {:?}", s, other.map(|r| r.language).map_err(|e| e.to_string())), json!({"lang": s})),
                }
                a.evals += 1;
                a.nontrivial += 1;
            }
        }
    }
}

fn fixed_points(a: &mut Acc, full_u32: bool, shard: u32, nshards: u32) {
    if shard == 0 {
        for v in 0u16..=255 {
            let f = mp4::FixedPointU8::new(v as u8);
            if f.value() != v as u8 || f.raw_value() != v << 8 {
                a.fail("c16:fixedu8-new", format!("FixedPointU8::new({}) -> value {} raw {:#x}", v, f.value(), f.raw_value()), json!({"v": v}));
            }
            let g = mp4::FixedPointI8::new(v as u8 as i8);
            if g.value() != v as u8 as i8 || g.raw_value() != ((v as u8 as i8) as i16) << 8 {
                a.fail("c16:fixedi8-new", format!("FixedPointI8::new({}) -> value {} raw {:#x}", v as u8 as i8, g.value(), g.raw_value()), json!({"v": v}));
            }
            a.evals += 2;
            a.nontrivial += 2;
        }
        for r in 0u32..=65535 {
            let r16 = r as u16;
            let f = mp4::FixedPointU8::new_raw(r16);
            if f.raw_value() != r16 || f.value() != (r16 >> 8) as u8 {
                a.fail("c16:fixedu8-raw", format!("FixedPointU8::new_raw({:#x}) -> value {} raw {:#x}", r16, f.value(), f.raw_value()), json!({"raw": r16}));
            }
            let ri = r16 as i16;
            let g = mp4::FixedPointI8::new_raw(ri);
            // integer part as the library defines value(): the ratio raw/256 truncated toward zero
            let trunc = (ri / 256) as i8;
            if g.raw_value() != ri || g.value() != trunc {
                a.fail("c16:fixedi8-raw", format!("FixedPointI8::new_raw({}) -> value {} raw {}", ri, g.value(), g.raw_value()), json!({"raw": ri}));
            }
            let h = mp4::FixedPointU16::new(r16);
            if h.value() != r16 || h.raw_value() != (r16 as u32) << 16 {
                a.fail("c16:fixedu16-new", format!("FixedPointU16::new({}) -> value {} raw {:#x}", r16, h.value(), h.raw_value()), json!({"v": r16}));
            }
            a.evals += 3;
            if r & 0xff == 0 || r & 0xff == 0xff || r & 0xff == 1 {
                a.nontrivial += 1;
            }
        }
    }
    // FixedPointU16::new_raw over u32
    let check = |a: &mut Acc, r: u32| {
        let h = mp4::FixedPointU16::new_raw(r);
        if h.raw_value() != r || h.value() != (r >> 16) as u16 {
            a.fail("c16:fixedu16-raw", format!("FixedPointU16::new_raw({:#x}) -> value {} raw {:#x}", r, h.value(), h.raw_value()), json!({"raw": r}));
        }
    };
    if full_u32 {
        let per = (1u64 << 32) / nshards as u64;
        let lo = per * shard as u64;
        let hi = if shard + 1 == nshards { 1u64 << 32 } else { lo + per };
        for r in lo..hi {
            check(a, r as u32);
        }
        a.evals += hi - lo;
        a.nontrivial += (hi - lo) >> 16; // integer boundaries
    } else if shard == 0 {
        let mut n = 0u64;
        for hi16 in 0u32..=65535 {
            for low in [0u32, 1, 0x7fff, 0x8000, 0xffff] {
                check(a, (hi16 << 16) | low);
                n += 1;
            }
        }
        let mut r = 0u32;
        loop {
            check(a, r);
            n += 1;
            let (nr, o) = r.overflowing_add(251);
            if o {
                break;
            }
            r = nr;
            if n > 20_000_000 {
                break;
            }
        }
        a.evals += n;
        a.nontrivial += 65536;
    }
}

fn small_enums(a: &mut Acc, full_u32: bool) {
    // AvcProfile: all 2^16 pairs
    for p in 0u16..=255 {
        for c in 0u16..=255 {
            let got = mp4::AvcProfile::try_from((p as u8, c as u8)).ok().map(|x| x.to_string());
            let want = match p {
                66 => Some(if c & 0x40 != 0 { "Constrained Baseline" } else { "Baseline" }),
                77 => Some("Main"),
                88 => Some("Extended"),
                100 => Some("High"),
                _ => None,
            };
            if got.as_deref() != want {
                a.fail("c16:avcprofile", format!("AvcProfile::try_from(({}, {:#04x})) = {:?}, expected {:?}", p, c, got, want), json!({"profile": p, "compat": c}));
            }
            a.evals += 1;
            if [65, 66, 67, 76, 77, 78, 87, 88, 89, 99, 100, 101].contains(&p) {
                a.nontrivial += 1;
            }
        }
    }
    for v in 0u16..=255 {
        let v8 = v as u8;
        let aot = mp4::AudioObjectType::try_from(v8).ok().map(|x| x as u8);
        let want = if crate::mux::VALID_AOT.contains(&v8) { Some(v8) } else { None };
        if aot != want {
            a.fail("c16:audio-object-type", format!("AudioObjectType::try_from({}) = {:?}, expected {:?}", v8, aot, want), json!({"value": v8}));
        }
        let sf = mp4::SampleFreqIndex::try_from(v8).ok().map(|x| (x as u8, x.freq()));
        let wsf = if v8 <= 12 { Some((v8, FREQ_TABLE[v8 as usize])) } else { None };
        if sf != wsf {
            a.fail("c16:sample-freq-index", format!("SampleFreqIndex::try_from({}) = {:?}, expected {:?}", v8, sf, wsf), json!({"value": v8}));
        }
        let ch = mp4::ChannelConfig::try_from(v8).ok().map(|x| x as u8);
        let wch = if (1..=7).contains(&v8) { Some(v8) } else { None };
        if ch != wch {
            a.fail("c16:channel-config", format!("ChannelConfig::try_from({}) = {:?}, expected {:?}", v8, ch, wch), json!({"value": v8}));
        }
        a.evals += 3;
        if v8 <= 48 {
            a.nontrivial += 3;
        }
    }
    // DataType
    let dt = |a: &mut Acc, v: u32| {
        let got = mp4::DataType::try_from(v).ok().map(|x| x as u32);
        let want = if [0u32, 1, 13, 21].contains(&v) { Some(v) } else { None };
        if got != want {
            a.fail("c16:data-type", format!("DataType::try_from({}) = {:?}, expected {:?}", v, got, want), json!({"value": v}));
        }
    };
    if full_u32 {
        // handled per shard in run()
    } else {
        let mut n = 0u64;
        for v in 0u32..=70000 {
            dt(a, v);
            n += 1;
        }
        for b in 0..32 {
            for base in [0u32, 1, 13, 21] {
                dt(a, base ^ (1 << b));
                dt(a, (1u32 << b).wrapping_add(base));
                n += 2;
            }
        }
        let mut v = 0u32;
        loop {
            dt(a, v);
            n += 1;
            let (nv, o) = v.overflowing_add(65521);
            if o {
                break;
            }
            v = nv;
        }
        a.evals += n;
        a.nontrivial += 4 + 4 * 34;
    }
    // MediaType / TrackType string tables
    let alphabet = [b'a', b'c', b'h', b't', b'x', b'v', b'p', b'2', b'4', b'5', b'6', b'9', b' ', b'A'];
    let media: [(&str, &str); 5] = [("h264", "H264"), ("h265", "H265"), ("vp9", "VP9"), ("aac", "AAC"), ("ttxt", "TTXT")];
    let mut strings: Vec<String> = vec![String::new(), "vide".into(), "soun".into(), "sbtl".into(), "vide ".into(), "VIDE".into(), "subt".into(), "text".into(), "h264 ".into(), "H264".into(), "hevc".into(), "avc1".into()];
    for len in 1..=4 {
        let total = alphabet.len().pow(len as u32);
        for code in 0..total {
            let mut c = code;
            let mut s = String::new();
            for _ in 0..len {
                s.push(alphabet[c % alphabet.len()] as char);
                c /= alphabet.len();
            }
            strings.push(s);
        }
    }
    for s in &strings {
        let got = mp4::MediaType::try_from(s.as_str()).ok();
        let want = media.iter().find(|m| m.0 == s);
        match (got, want) {
            (Some(g), Some(w)) => {
                let back: &str = g.into();
                if back != w.0 || g.to_string() != w.0 || format!("{:?}", g) != w.1 {
                    a.fail("c16:mediatype", format!("MediaType for {:?}: {:?}/{}", s, g, back), json!({"s": s}));
                }
            }
            (None, None) => {}
            (g, w) => a.fail("c16:mediatype", format!("MediaType::try_from({:?}) = {:?}, expected {:?}", s, g, w.map(|x| x.1)), json!({"s": s})),
        }
        let tt = mp4::TrackType::try_from(s.as_str()).ok().map(|t| t.to_string());
        let wt = match s.as_str() {
            "vide" => Some("Video"),
            "soun" => Some("Audio"),
            "sbtl" => Some("Subtitle"),
            _ => None,
        };
        if tt.as_deref() != wt {
            a.fail("c16:tracktype-str", format!("TrackType::try_from({:?}) = {:?}, expected {:?}", s, tt, wt), json!({"s": s}));
        }
        a.evals += 2;
    }
    a.nontrivial += 8;
    for (t, code) in [(mp4::TrackType::Video, *b"vide"), (mp4::TrackType::Audio, *b"soun"), (mp4::TrackType::Subtitle, *b"sbtl")] {
        let f: FourCC = t.into();
        if f.value != code {
            a.fail("c16:tracktype-to-fourcc", format!("{:?} -> {:?}", t, f.value), json!({"t": t.to_string()}));
        }
    }
}

pub fn run(ctx: &mut Ctx) {
    let thorough = !ctx.quick();
    let (shard, nshards) = (ctx.shard, ctx.nshards);
    let named: BTreeMap<u32, BoxType> = NAMED.iter().map(|(n, c)| (u32::from_be_bytes(*c), named_variant(n))).collect();
    let nt_box = neighbours(&named.keys().copied().collect::<Vec<_>>());
    let nt_tt = neighbours(&[u32::from_be_bytes(*b"vide"), u32::from_be_bytes(*b"soun"), u32::from_be_bytes(*b"sbtl")]);
    let mut acc = Acc { ctx, evals: 0, nontrivial: 0, fails: BTreeMap::new() };
    // named variants <-> registered characters (table-driven, both directions)
    acc.ctx.stage("named");
    if shard == 0 {
        for (name, code) in NAMED.iter() {
            let c = u32::from_be_bytes(*code);
            let v = named_variant(name);
            let back: u32 = v.into();
            if back != c || BoxType::from(c) != v {
                acc.fail("c16:named-variant", format!("{} <-> {:?}: variant->{:#010x}, code->{:?}", name, String::from_utf8_lossy(code), back, BoxType::from(c)), json!({"name": name}));
            }
            acc.evals += 1;
        }
    }
    acc.ctx.stage("codes");
    let per = (1u64 << 32) / nshards as u64;
    let lo = per * shard as u64;
    let hi = if shard + 1 == nshards { 1u64 << 32 } else { lo + per };
    let block = 1u64 << 24;
    let mut b = lo;
    let mut blk = 0u64;
    while b < hi {
        let e = (b + block).min(hi);
        acc.ctx.enter_own(blk);
        numeric_range(&mut acc, b, e, &named, &nt_box, &nt_tt, thorough);
        b = e;
        blk += 1;
    }
    acc.ctx.stage("language");
    let per = 65536 / nshards;
    mdhd_lang(&mut acc, per * shard, if shard + 1 == nshards { 65536 } else { per * (shard + 1) });
    file_lang(&mut acc, per * shard, if shard + 1 == nshards { 65536 } else { per * (shard + 1) }, None);
    letters3(&mut acc, shard, nshards);
    acc.ctx.stage("fixed-point");
    fixed_points(&mut acc, thorough, shard, nshards);
    acc.ctx.stage("enums");
    if shard == 0 {
        small_enums(&mut acc, thorough);
    }
    if thorough {
        let per = (1u64 << 32) / nshards as u64;
        let lo = per * shard as u64;
        let hi = if shard + 1 == nshards { 1u64 << 32 } else { lo + per };
        for v in lo..hi {
            let v = v as u32;
            let got = mp4::DataType::try_from(v).ok().map(|x| x as u32);
            let want = if [0u32, 1, 13, 21].contains(&v) { Some(v) } else { None };
            if got != want {
                acc.fail("c16:data-type", format!("DataType::try_from({}) = {:?}, expected {:?}", v, got, want), json!({"value": v}));
            }
        }
        acc.evals += hi - lo;
    }
    let Acc { ctx, evals, nontrivial, fails } = acc;
    ctx.evaluations += evals;
    // distinct non-trivial points are counted, not fingerprinted (each point is enumerated once)
    ctx.extra.insert("counted_nontrivial_points".into(), json!(nontrivial));
    ctx.extra.insert("exhaustive".into(), json!(true));
    ctx.count_n("points:codes-2^32-slice", hi - lo);
    ctx.sample("named-code", &json!({"code": "ftyp", "u32": 0x66747970u32, "variant": "FtypBox"}));
    ctx.sample("language-code", &json!({"lang_code": pack_example(), "decodes_to": "eng"}));
    ctx.sample("avc-profile-pair", &json!({"profile": 66, "compat": 0x40, "expects": "Constrained Baseline"}));
    for (sig, (detail, case)) in fails {
        ctx.stage("c16");
        ctx.violation(&case, &Failure::new(sig, detail));
    }
}

fn pack_example() -> u16 {
    refmp4::pack_lang(b"eng")
}

pub fn replay(_ctx: &mut Ctx, _stage: &str, case: &Value) -> Check {
    // a replay case names a single point of one domain
    let named: BTreeMap<u32, BoxType> = NAMED.iter().map(|(n, c)| (u32::from_be_bytes(*c), named_variant(n))).collect();
    let nt = BTreeSet::new();
    let mut dummy = Ctx::new("C16", crate::engine::Tier::Quick, 1, 0, 1, "replay", std::env::temp_dir());
    let mut a = Acc { ctx: &mut dummy, evals: 0, nontrivial: 0, fails: BTreeMap::new() };
    if let Some(c) = case.get("code").and_then(|v| v.as_u64()) {
        numeric_range(&mut a, c, c + 1, &named, &nt, &nt, true);
    } else if let Some(c) = case.get("file_lang_code").and_then(|v| v.as_u64()) {
        file_lang(&mut a, c as u32, c as u32 + 1, case.get("brand").and_then(|v| v.as_u64()).map(|b| b as usize));
    } else if let Some(c) = case.get("lang_code").and_then(|v| v.as_u64()) {
        mdhd_lang(&mut a, c as u32, c as u32 + 1);
    } else {
        letters3(&mut a, 0, 1);
        fixed_points(&mut a, false, 0, 1);
        small_enums(&mut a, false);
    }
    let _ = cc;
    if let Some((sig, (detail, _))) = a.fails.into_iter().next() {
        fail!(sig, "{}", detail);
    }
    ensure!(true, "", "");
    Ok(())
}
