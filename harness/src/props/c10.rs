//! C10 — I/O failures surface as errors; short reads and writes are transparent.
use super::PropMeta;
use crate::adv;
use crate::engine::{guard, Check, Ctx, Failure};
use crate::io::{FaultKind, FaultStream, ShortStream, FAULT_MARK};
use crate::mux::{self, MuxCase};
use crate::refmp4::movie::build;
use crate::refmp4::sample_bytes;
use crate::{ensure, fail};
use mp4::Mp4Reader;
use proptest::test_runner::{Config, RngAlgorithm, TestRng, TestRunner};
use serde::{Deserialize, Serialize};
use serde_json::Value;
use std::io::Cursor;

pub const META: PropMeta = PropMeta {
    level: "fault_enumeration",
    rule: "faults: for every explored file (canned + reference-encoded, all layouts) and muxer history, a fault-free run counts the stream calls C of (a) read_header, (b) read_fragment_header, (c) every read_sample, (d) the whole muxing history; then EVERY index k in 0..C x fault kind {injected io::Error, zero-length transfer (read returns EOF / write returns 0)} is executed: the public call during which the fault fired must return Err(Error::IoError(_)) - carrying the injected marker for the error kind - never Ok, never another variant, never a panic. Short transfers: every file/history is also run over a stream that moves at most m bytes per call, m in {1,2,3,7,8,64, pseudo-random per call}, with and without sporadic ErrorKind::Interrupted; parsed boxes, every sample and the muxer's output bytes must equal the full-transfer baseline. Non-trivial = the fault hit a call other than the first one of the operation (i.e. inside a nested box, a chunk flush, the mdat size patch); distinct = (file or history, operation, k, kind).",
    assumptions: &["exactly one fault per run (the property speaks of any single call)"],
};

#[derive(Clone, Debug, Serialize, Deserialize)]
pub struct Case {
    pub subject: String,
    pub op: String, // read_header | read_fragment_header | read_sample | mux | short-read | short-mux
    pub k: u64,
    pub kind: String,
    pub file_hex: Option<String>,
    pub init_hex: Option<String>,
    pub history: Option<MuxCase>,
    pub track: u32,
    pub sample: u32,
    pub short: Option<(usize, u64, u64)>,
}

fn kind_of(s: &str) -> FaultKind {
    if s == "zero" {
        FaultKind::Zero
    } else {
        FaultKind::Error
    }
}

fn judge_err(e: &mp4::Error, kind: FaultKind, fired_on: u8, what: &str, k: u64) -> Check {
    match e {
        mp4::Error::IoError(ioe) => {
            if kind == FaultKind::Error || fired_on == b's' {
                ensure!(ioe.to_string().contains(FAULT_MARK), format!("c10:other-io-error@{}", what), "{}: fault at call {} surfaced as a different I/O error: {}", what, k, ioe);
            }
            Ok(())
        }
        other => fail!(format!("c10:not-io-error@{}", what), "{}: fault at stream call {} surfaced as {:?} instead of Error::IoError", what, k, other.to_string()),
    }
}

type FRd = Mp4Reader<FaultStream<Cursor<Vec<u8>>>>;

fn open_faulty(file: &[u8], init: Option<&[u8]>, at: u64, kind: FaultKind) -> Result<(Result<FRd, mp4::Error>, std::rc::Rc<crate::io::FaultStats>), Failure> {
    let n = file.len() as u64;
    let (s, st) = FaultStream::new(Cursor::new(file.to_vec()), at, kind);
    let r = match init {
        None => guard(move || Mp4Reader::read_header(s, n)).map_err(|p| p.failure("read_header"))?,
        Some(i) => {
            let il = i.len() as u64;
            let ir = Mp4Reader::read_header(Cursor::new(i.to_vec()), il).map_err(|e| Failure::new("c10:init-does-not-open", e.to_string()))?;
            guard(move || ir.read_fragment_header(s, n)).map_err(|p| p.failure("read_fragment_header"))?
        }
    };
    Ok((r, st))
}

/// fault at the k-th stream call of opening
pub fn check_open_fault(file: &[u8], init: Option<&[u8]>, k: u64, kind: FaultKind) -> Check {
    let what = if init.is_some() { "read_fragment_header" } else { "read_header" };
    let (r, st) = open_faulty(file, init, k, kind)?;
    if !st.fired.get() {
        return Ok(()); // k beyond the calls of this run (cannot happen for k < C)
    }
    match r {
        Ok(_) => fail!(format!("c10:ok-despite-fault@{}", what), "{} returned Ok although stream call {} ({}) failed", what, k, st.fired_on.get() as char),
        Err(e) => judge_err(&e, kind, st.fired_on.get(), what, k),
    }
}

pub fn check_sample_fault(file: &[u8], init: Option<&[u8]>, track: u32, sample: u32, k: u64, kind: FaultKind) -> Check {
    let (r, st) = open_faulty(file, init, u64::MAX, kind)?;
    let mut r = r.map_err(|e| Failure::new("c10:baseline-open-failed", e.to_string()))?;
    st.arm(k);
    let got = guard(|| r.read_sample(track, sample)).map_err(|p| p.failure("read_sample"))?;
    if !st.fired.get() {
        return Ok(());
    }
    match got {
        Ok(_) => fail!("c10:ok-despite-fault@read_sample", "read_sample({}, {}) returned Ok although its stream call {} ({}) failed", track, sample, k, st.fired_on.get() as char),
        Err(e) => judge_err(&e, kind, st.fired_on.get(), "read_sample", k),
    }
}

/// number of stream calls made by opening / by reading each sample
fn count_open_calls(file: &[u8], init: Option<&[u8]>) -> Result<(u64, Vec<(u32, u32, u64)>), Failure> {
    let (r, st) = open_faulty(file, init, u64::MAX, FaultKind::Error)?;
    let c = st.calls.get();
    let mut per = Vec::new();
    if let Ok(mut r) = r {
        let mut ids: Vec<u32> = r.tracks().keys().copied().collect();
        ids.sort();
        for id in ids {
            let n = r.sample_count(id).unwrap_or(0).min(24);
            for s in 1..=n {
                st.arm(u64::MAX);
                if let Ok(Ok(Some(_))) = guard(|| r.read_sample(id, s)) {
                    per.push((id, s, st.calls.get()));
                }
            }
        }
    }
    Ok((c, per))
}

/// mux with a fault at stream call k: the public call in progress must return Err(IoError)
pub fn check_mux_fault(case: &MuxCase, k: u64, kind: FaultKind) -> Check {
    let (stream, st) = FaultStream::new(Cursor::new(Vec::new()), k, kind);
    let cfg = mux::mp4_config(case);
    macro_rules! step {
        ($name:expr, $call:expr) => {{
            let r = guard(|| $call).map_err(|p| p.failure($name))?;
            if st.fired.get() {
                return match r {
                    Ok(_) => Err(Failure::new(format!("c10:ok-despite-fault@{}", $name), format!("{} returned Ok although stream call {} ({}) failed", $name, k, st.fired_on.get() as char))),
                    Err(e) => judge_err(&e, kind, st.fired_on.get(), $name, k),
                };
            }
            match r {
                Ok(v) => v,
                Err(e) => return Err(Failure::new(format!("c10:unexpected-error@{}", $name), format!("{} failed without a fault: {}", $name, e))),
            }
        }};
    }
    let mut w = step!("write_start", mp4::Mp4Writer::write_start(stream, &cfg));
    for t in &case.tracks {
        let Some(tc) = mux::track_config(t) else { continue };
        step!("add_track", w.add_track(&tc));
    }
    let mut idx = vec![0u32; case.tracks.len() + 1];
    for op in &case.ops {
        if op.track == 0 || op.track as usize > case.tracks.len() {
            continue;
        }
        let i = idx[op.track as usize];
        idx[op.track as usize] += 1;
        let sample = mp4::Mp4Sample { start_time: 0, duration: op.dur, rendering_offset: op.cts, is_sync: op.sync, bytes: mp4::Bytes::from(sample_bytes(op.track, i, op.size)) };
        step!("write_sample", w.write_sample(op.track, &sample));
    }
    step!("write_end", w.write_end());
    Ok(())
}

fn count_mux_calls(case: &MuxCase) -> Option<u64> {
    let (stream, st) = FaultStream::new(Cursor::new(Vec::new()), u64::MAX, FaultKind::Error);
    let r = mux::run_mux(case, stream);
    if r.all_ok || r.calls.iter().all(|(n, o)| n != "write_end" || matches!(o, mux::CallOutcome::Ok)) {
        Some(st.calls.get())
    } else {
        None
    }
}

#[derive(PartialEq, Debug)]
struct ReadSnap {
    // boxes are compared with PartialEq (IlstBox holds a HashMap: Debug output order is not stable)
    ftyp: mp4::FtypBox,
    moov: mp4::MoovBox,
    moofs: Vec<mp4::MoofBox>,
    samples: Vec<(u32, u32, Vec<u8>, u64, u32, i32, bool)>,
}

fn snap<R: std::io::Read + std::io::Seek>(mut r: Mp4Reader<R>) -> ReadSnap {
    let mut ids: Vec<u32> = r.tracks().keys().copied().collect();
    ids.sort();
    let mut samples = Vec::new();
    for id in ids {
        let n = r.sample_count(id).unwrap_or(0).min(64);
        for s in 1..=n {
            if let Ok(Some(x)) = r.read_sample(id, s) {
                samples.push((id, s, x.bytes.to_vec(), x.start_time, x.duration, x.rendering_offset, x.is_sync));
            }
        }
    }
    ReadSnap { ftyp: r.ftyp.clone(), moov: r.moov.clone(), moofs: r.moofs.clone(), samples }
}

pub fn check_short_read(file: &[u8], init: Option<&[u8]>, max: usize, vary: u64, intr: u64) -> Check {
    let n = file.len() as u64;
    let open_plain = || -> Result<ReadSnap, String> {
        match init {
            None => Mp4Reader::read_header(Cursor::new(file.to_vec()), n).map(snap).map_err(|e| e.to_string()),
            Some(i) => {
                let ir = Mp4Reader::read_header(Cursor::new(i.to_vec()), i.len() as u64).map_err(|e| e.to_string())?;
                ir.read_fragment_header(Cursor::new(file.to_vec()), n).map(snap).map_err(|e| e.to_string())
            }
        }
    };
    let base = open_plain().map_err(|e| Failure::new("c10:baseline-open-failed", e))?;
    let got = guard(|| -> Result<ReadSnap, String> {
        let s = ShortStream::new(Cursor::new(file.to_vec()), max, vary, intr);
        match init {
            None => Mp4Reader::read_header(s, n).map(snap).map_err(|e| e.to_string()),
            Some(i) => {
                let ir = Mp4Reader::read_header(Cursor::new(i.to_vec()), i.len() as u64).map_err(|e| e.to_string())?;
                ir.read_fragment_header(s, n).map(snap).map_err(|e| e.to_string())
            }
        }
    })
    .map_err(|p| p.failure("short-read"))?;
    match got {
        Err(e) => fail!("c10:short-read-fails", "reading over a stream limited to {} bytes per call (vary {}, interrupt every {}) failed: {}", max, vary, intr, e),
        Ok(g) => {
            ensure!(g.ftyp == base.ftyp && g.moov == base.moov && g.moofs == base.moofs, "c10:short-read-boxes-differ", "parsed boxes differ under short transfers (max {} bytes)", max);
            ensure!(g.samples == base.samples, "c10:short-read-samples-differ", "samples differ under short transfers (max {} bytes, interrupt every {})", max, intr);
            Ok(())
        }
    }
}

pub fn check_short_mux(case: &MuxCase, max: usize, vary: u64, intr: u64) -> Check {
    // the reference run: the same history into a plain in-memory sink at position 0
    let plain = MuxCase { sink: 0, ..case.clone() };
    let (r0, base) = mux::run_mux_vec(&plain);
    if r0.panicked || !r0.all_ok {
        return Ok(());
    }
    let r = mux::run_mux(case, ShortStream::new(Cursor::new(Vec::new()), max, vary, intr));
    if let Some(f) = mux::first_panic(&r) {
        return Err(f);
    }
    ensure!(r.all_ok, "c10:short-mux-fails", "muxing over a stream limited to {} bytes per call failed: {:?}", max, r.calls.iter().find(|(_, o)| !matches!(o, mux::CallOutcome::Ok)).map(|(n, o)| format!("{} {:?}", n, o)));
    let out = r.writer.map(|s| s.inner.into_inner()).unwrap_or_default();
    ensure!(out == base, "c10:short-mux-output-differs", "muxer output differs under short writes (max {} bytes per call, interrupt every {}): {} vs {} bytes", max, intr, out.len(), base.len());
    Ok(())
}

struct Subject {
    name: String,
    file: Vec<u8>,
    init: Option<Vec<u8>>,
}

fn subjects(ctx: &Ctx) -> Vec<Subject> {
    let mut v = Vec::new();
    for name in ["minimal.mp4", "minimal_init.mp4", "extended_audio_object_type.mp4"] {
        v.push(Subject { name: name.into(), file: adv::canned(name), init: None });
    }
    v.push(Subject { name: "minimal_fragment.m4s".into(), file: adv::canned("minimal_fragment.m4s"), init: Some(adv::canned("minimal_init.mp4")) });
    let n = 4u32;
    for i in 0..n {
        v.push(Subject { name: format!("sink{}", i), file: build(&adv::kitchen_sink(i)).bytes, init: None });
    }
    for i in 0..2 {
        let b = build(&adv::kitchen_sink_frag(i));
        v.push(Subject { name: format!("sinkfrag{}", i), file: b.bytes.clone(), init: None });
        v.push(Subject { name: format!("segment{}", i), file: b.segment.clone(), init: Some(b.bytes[..b.init_len].to_vec()) });
    }
    // every box with a 64-bit size header (the reader's largesize path under faults / short transfers)
    for (i, base) in [adv::kitchen_sink(1), adv::kitchen_sink_frag(0)].into_iter().enumerate() {
        let mut m = base;
        for t in m.tracks.iter_mut() {
            t.trex_dur = 100;
        }
        let b0 = build(&m);
        let large: Vec<crate::refmp4::movie::Xform> = crate::props::c12::sites(&b0.tree, &m).iter().filter_map(|s| if let crate::props::c12::Site::Large { path } = s { Some(crate::refmp4::movie::Xform::Large { path: path.clone() }) } else { None }).collect();
        m.xforms = large;
        let b = build(&m);
        v.push(Subject { name: format!("all-64-bit-headers{}", i), file: b.bytes.clone(), init: None });
        if !m.frags.is_empty() {
            v.push(Subject { name: format!("all-64-bit-headers-segment{}", i), file: b.segment.clone(), init: Some(b.bytes[..b.init_len].to_vec()) });
        }
    }
    if !ctx.quick() {
        v.push(Subject { name: "big_buck_bunny_metadata.m4v".into(), file: adv::canned("big_buck_bunny_metadata.m4v"), init: None });
    }
    v
}

fn histories(ctx: &Ctx) -> Vec<MuxCase> {
    let mut seed = [0u8; 32];
    seed[..8].copy_from_slice(&ctx.seed.to_le_bytes());
    seed[8] = 0x10;
    let mut runner = TestRunner::new_with_rng(Config::default(), TestRng::from_seed(RngAlgorithm::ChaCha, &seed));
    let n = ctx.pick(160usize, 600usize);
    let maxops = ctx.pick(24usize, 60usize);
    let strat = mux::mux_history(3, maxops, 0.0);
    let mut v: Vec<MuxCase> = (0..n).map(|_| crate::gen::draw(&strat, &mut runner)).collect();
    // long histories (hundreds of samples): behaviour that only starts after many calls
    let tr = |kind: mux::MKind, ts: u32| mux::MTrack { kind, timescale: ts, language: "und".into(), preset: false, ttype: 0 };
    let aac = mux::MKind::Aac { profile: 2, freq_index: 3, chan: 2, bitrate: 128_000 };
    let avc = mux::MKind::Avc { width: 320, height: 240, sps: vec![0x67, 0x42, 0xc0, 0x1e, 0xd9], pps: vec![0x68, 0xce] };
    v.push(MuxCase { major: *b"isom", minor: 0, compat: vec![*b"isom"], timescale: 1000, tracks: vec![tr(aac.clone(), 48_000)], ops: (0..300u32).map(|i| mux::MOp { track: 1, size: 5 + i % 3, dur: 1024, cts: 0, sync: true }).collect(), sink: 0 });
    v.push(MuxCase {
        major: *b"mp42",
        minor: 1,
        compat: vec![],
        timescale: 600,
        tracks: vec![tr(avc, 90_000), tr(mux::MKind::Ttxt, 1000), tr(aac, 44_100)],
        ops: (0..540u32).map(|i| match i % 3 { 0 => mux::MOp { track: 1, size: 9, dur: 3000, cts: (i % 2) as i32 * 3000, sync: i % 30 == 0 }, 1 => mux::MOp { track: 3, size: 4, dur: 1024, cts: 0, sync: true }, _ => mux::MOp { track: 2, size: i % 2, dur: 33, cts: 0, sync: true } }).collect(),
        sink: 0,
    });
    v
}

pub fn run(ctx: &mut Ctx) {
    let subs = subjects(ctx);
    let hists = histories(ctx);
    let kinds = [("error", FaultKind::Error), ("zero", FaultKind::Zero)];
    // ---- faults while opening ----
    ctx.stage("open-faults");
    let mut idx = 0u64;
    let mut info = Vec::new();
    for s in &subs {
        let (c, per) = match count_open_calls(&s.file, s.init.as_deref()) {
            Ok(x) => x,
            Err(_) => continue,
        };
        info.push(format!("{}: {} calls to open, {} samples", s.name, c, per.len()));
        for k in 0..c {
            for (kn, kind) in kinds {
                let my = idx;
                idx += 1;
                if !ctx.enter(my) {
                    continue;
                }
                let res = check_open_fault(&s.file, s.init.as_deref(), k, kind);
                if k >= 1 {
                    ctx.nontrivial(crate::engine::fnv64(format!("{}:open:{}:{}", s.name, k, kn).as_bytes()));
                    ctx.sample("open-fault", &serde_json::json!({"subject": s.name, "op": if s.init.is_some() {"read_fragment_header"} else {"read_header"}, "k": k, "kind": kn, "calls": c}));
                }
                let case = Case { subject: s.name.clone(), op: if s.init.is_some() { "read_fragment_header".into() } else { "read_header".into() }, k, kind: kn.into(), file_hex: if res.is_err() { Some(crate::engine::hex(&s.file)) } else { None }, init_hex: if res.is_err() { s.init.as_ref().map(|i| crate::engine::hex(i)) } else { None }, history: None, track: 0, sample: 0, short: None };
                ctx.judge(&case, res);
            }
        }
        // ---- faults while reading a sample ----
        for (track, sample, calls) in per {
            for k in 0..calls {
                for (kn, kind) in kinds {
                    let my = idx;
                    idx += 1;
                    if !ctx.enter(my) {
                        continue;
                    }
                    let res = check_sample_fault(&s.file, s.init.as_deref(), track, sample, k, kind);
                    if k >= 1 {
                        ctx.nontrivial(crate::engine::fnv64(format!("{}:rs:{}:{}:{}:{}", s.name, track, sample, k, kn).as_bytes()));
                        ctx.sample("read_sample-fault", &serde_json::json!({"subject": s.name, "track": track, "sample": sample, "k": k, "kind": kn}));
                    }
                    let case = Case { subject: s.name.clone(), op: "read_sample".into(), k, kind: kn.into(), file_hex: if res.is_err() { Some(crate::engine::hex(&s.file)) } else { None }, init_hex: if res.is_err() { s.init.as_ref().map(|i| crate::engine::hex(i)) } else { None }, history: None, track, sample, short: None };
                    ctx.judge(&case, res);
                }
            }
        }
    }
    ctx.extra.insert("read_subjects".into(), serde_json::json!(info));
    // ---- faults while muxing ----
    ctx.stage("mux-faults");
    let mut idx = 0u64;
    let mut total_calls = 0u64;
    for (hi, h) in hists.iter().enumerate() {
        let Some(c) = count_mux_calls(h) else { continue };
        total_calls += c;
        for k in 0..c {
            for (kn, kind) in kinds {
                let my = idx;
                idx += 1;
                if !ctx.enter(my) {
                    continue;
                }
                let res = check_mux_fault(h, k, kind);
                if k >= 1 {
                    ctx.nontrivial(crate::engine::fnv64(format!("h{}:{}:{}", hi, k, kn).as_bytes()));
                    ctx.sample("mux-fault", &serde_json::json!({"history": hi, "ops": h.ops.len(), "tracks": h.tracks.len(), "k": k, "kind": kn, "calls": c}));
                }
                let case = Case { subject: format!("history{}", hi), op: "mux".into(), k, kind: kn.into(), file_hex: None, init_hex: None, history: if res.is_err() { Some(h.clone()) } else { None }, track: 0, sample: 0, short: None };
                ctx.judge(&case, res);
            }
        }
    }
    ctx.extra.insert("mux_histories".into(), serde_json::json!(hists.len()));
    ctx.extra.insert("mux_stream_calls_total".into(), serde_json::json!(total_calls));
    // ---- short transfers ----
    ctx.stage("short-transfers");
    let plans: Vec<(usize, u64, u64)> = vec![(1, 0, 0), (2, 0, 0), (3, 0, 3), (7, 0, 0), (8, 0, 5), (64, 0, 2), (9, 0x5eed, 0), (5, 0x1234, 4), (1, 0, 2)];
    let mut idx = 0u64;
    for s in &subs {
        if s.file.len() > 20_000 {
            continue;
        }
        for p in &plans {
            let my = idx;
            idx += 1;
            if !ctx.enter(my) {
                continue;
            }
            let res = check_short_read(&s.file, s.init.as_deref(), p.0, p.1, p.2);
            ctx.nontrivial(crate::engine::fnv64(format!("{}:short:{:?}", s.name, p).as_bytes()));
            ctx.sample("short-read", &serde_json::json!({"subject": s.name, "max_bytes_per_call": p.0, "vary": p.1, "interrupt_every": p.2}));
            let case = Case { subject: s.name.clone(), op: "short-read".into(), k: 0, kind: String::new(), file_hex: if res.is_err() { Some(crate::engine::hex(&s.file)) } else { None }, init_hex: if res.is_err() { s.init.as_ref().map(|i| crate::engine::hex(i)) } else { None }, history: None, track: 0, sample: 0, short: Some(*p) };
            ctx.judge(&case, res);
        }
    }
    for (hi, h) in hists.iter().enumerate() {
        for p in &plans {
            let my = idx;
            idx += 1;
            if !ctx.enter(my) {
                continue;
            }
            let res = check_short_mux(h, p.0, p.1, p.2);
            ctx.nontrivial(crate::engine::fnv64(format!("h{}:short:{:?}", hi, p).as_bytes()));
            ctx.sample("short-mux", &serde_json::json!({"history": hi, "max_bytes_per_call": p.0, "vary": p.1, "interrupt_every": p.2}));
            let case = Case { subject: format!("history{}", hi), op: "short-mux".into(), k: 0, kind: String::new(), file_hex: None, init_hex: None, history: if res.is_err() { Some(h.clone()) } else { None }, track: 0, sample: 0, short: Some(*p) };
            ctx.judge(&case, res);
        }
    }
}

pub fn replay(_ctx: &mut Ctx, _stage: &str, case: &Value) -> Check {
    let c: Case = serde_json::from_value(case.clone()).map_err(|e| Failure::new("replay:bad-case", e.to_string()))?;
    let file = c.file_hex.as_ref().map(|h| crate::engine::unhex(h));
    let init = c.init_hex.as_ref().map(|h| crate::engine::unhex(h));
    let kind = kind_of(&c.kind);
    match c.op.as_str() {
        "read_header" | "read_fragment_header" => check_open_fault(file.as_deref().unwrap_or(&[]), init.as_deref(), c.k, kind),
        "read_sample" => check_sample_fault(file.as_deref().unwrap_or(&[]), init.as_deref(), c.track, c.sample, c.k, kind),
        "mux" => check_mux_fault(c.history.as_ref().ok_or_else(|| Failure::new("replay:bad-case", "no history"))?, c.k, kind),
        "short-read" => {
            let p = c.short.unwrap_or((1, 0, 0));
            check_short_read(file.as_deref().unwrap_or(&[]), init.as_deref(), p.0, p.1, p.2)
        }
        _ => {
            let p = c.short.unwrap_or((1, 0, 0));
            check_short_mux(c.history.as_ref().ok_or_else(|| Failure::new("replay:bad-case", "no history"))?, p.0, p.1, p.2)
        }
    }
}
