//! C06 / C07 / C08 — adversarial inputs through the read-side API driver with three oracles:
//! no panic (C06), linear work (C07), memory bounded by input length (C08).
use super::PropMeta;
use crate::adv::{self, AdvCase, Base};
use crate::driver::{self, CallRec, Exercise, CALL_OPS, OPS_CONST, OPS_PER_BYTE};
use crate::engine::{Check, Ctx, Failure};
use crate::refmp4::parse::FieldKind;
use proptest::prelude::*;
use serde_json::Value;
use std::sync::Arc;

pub const META_C06: PropMeta = PropMeta {
    level: "exploration",
    rule: "inputs: files rendered by the reference encoder (4 hand-built 'kitchen sink' movies covering every box kind, 3 fragmented/segment variants, N seed-dependent generated movies) and 4 canned files; exhaustive single substitution of ~25 boundary values into every size/type/version/flags/count/length/offset/time field of the field map; aligned-word sweep over moov/moof of the canned files; pairwise substitution inside a box and with the parent's size field (strided in quick); box-tree surgery (delete/duplicate/truncate/zero/nest/swap, with and without ancestor size fix-up); every prefix of three files; cross-box field pairs; consistent inflation (a count raised together with the sizes of its box and of its k nearest ancestors, every k); chains of thousands of minimal containers; 'amplify' (a trak/traf whose count or length field is maximal, repeated 200 (thorough 400) times in front of 512 KiB (1 MiB) of patterned padding: a decoder that follows the field beyond its box reads the padding once per copy); 'big-tables' (every sample-table box in turn with 100 000 entries in five orders); proptest havoc (1..6 byte/word/insert/delete/copy operations snapped to field starts); 'structures': valid generated movies with unusual legal content (handler names of any length/script incl. counted-string lookalikes, samples above 64 KiB, final mdat of size 0, 64-bit headers in udta); C06 also 'spec-boxes': the stand-alone box decoders on generated values of all 46 box kinds and byte-mutated versions. Each input goes through driver::exercise: read_header, read_fragment_header against two init segments, two media segments against the input, every accessor, sample_offset/read_sample for ids {0,1..min(count,64),count-1,count,count+1,2^31,u32::MAX} and a missing track, to_json/summary of every parsed box; every call under catch_unwind, in a wrapping and an overflow-checked build; process death is caught and re-confirmed by the supervisor. Non-trivial = the input differs from its base, the open call performed >= 4 stream operations, and (some open succeeded or it failed after >= 8 operations). Distinct = content hash.",
    assumptions: &["absence of panics is only shown for the explored inputs", "stack overflow would surface as SIGSEGV of a worker (observed, not generated on purpose)"],
};

pub const META_C07: PropMeta = PropMeta {
    level: "exploration",
    rule: "same input families as C06, restricted/weighted to size, largesize, count, length, offset and version fields (zero, tiny and huge values at every nesting level). Oracle per call, from an operation-counting stream with a hard budget: open calls (read_header / read_fragment_header) must stay within 24*n + 65536 stream operations and bytes (a loop that does not consume input exhausts every finite budget and is cut off deterministically); every later call within 64 + (n + sample size)/64 operations and n + sample size + 64 bytes; thread CPU time of any call <= 1 s for these inputs (n <= 2 MiB; normal: microseconds), confirmed by a second execution; 'big-tables': every sample-table box in turn with 100 000 entries in ascending / descending / constant / alternating / scrambled order, where read_header may not use more than 0.2 s AND 25 x the CPU time of the ascending-order file of the same length (re-measured). A worker that stops making progress is killed by the supervisor and the case re-confirmed alone. Non-trivial = a size/count/length/offset/version field holds a value that is not its true value and the parser performed >= 4 operations. Distinct = content hash.",
    assumptions: &["CPU-linearity is only a blow-up detector (>= 10^5 x normal cost)"],
};

pub const META_C08: PropMeta = PropMeta {
    level: "exploration",
    rule: "same input families as C06, restricted/weighted to count, length, size and largesize fields (maximal values). Oracle per call from the counting global allocator: total bytes requested <= 256*n + 8 MiB and largest single request <= 64*n + 4 MiB, n = length of the input the call parses; requests are delegated to the system allocator (lazy for zeroed memory) so multi-GiB requests are observed in-process; a request the system refuses aborts the worker, which the supervisor attributes (pre-logged size) and confirms. Non-trivial = a count/length/size field was replaced and the parser performed >= 4 operations. Distinct = content hash.",
    assumptions: &["over-allocation bounded by an 8/16-bit field (<= ~2 MiB) is inside the constant term"],
};

pub const CPU_LIMIT_NS: u64 = 1_000_000_000;
pub const ALLOC_TOTAL_PER_BYTE: u64 = 256;
pub const ALLOC_TOTAL_CONST: u64 = 8 << 20;
pub const ALLOC_SINGLE_PER_BYTE: u64 = 64;
pub const ALLOC_SINGLE_CONST: u64 = 4 << 20;

fn short(name: &str) -> &str {
    // strip context prefixes for signatures ("seg:", "frag:")
    name.trim_start_matches("seg:").trim_start_matches("frag:")
}

/// first failure that is not an open known finding (falls back to the first failure)
fn pick(ctx: &Ctx, fails: Vec<Failure>) -> Check {
    if fails.is_empty() {
        return Ok(());
    }
    if let Some(f) = fails.iter().find(|f| ctx.kf.match_open(&ctx.prop, &f.sig).is_none()) {
        return Err(f.clone());
    }
    Err(fails[0].clone())
}

pub fn oracle_c06(ctx: &mut Ctx, _case: &AdvCase, ex: &Exercise) -> Check {
    let mut fails = Vec::new();
    for c in &ex.calls {
        if let Some(p) = &c.panic {
            let f = p.failure(short(&c.name));
            if !fails.iter().any(|x: &Failure| x.sig == f.sig) {
                fails.push(f);
            }
        }
    }
    pick(ctx, fails)
}

fn c07_call(c: &CallRec) -> Option<Failure> {
    let name = short(&c.name);
    if c.is_open {
        let bound = OPS_PER_BYTE * c.n + OPS_CONST;
        if c.budget_hit || c.ops > bound {
            return Some(Failure::new(format!("c07:ops@{}", name), format!("{} on {} bytes performed {} stream operations (bound {}): the parser loops without consuming input", name, c.n, c.ops, bound)));
        }
        if c.bytes > bound {
            return Some(Failure::new(format!("c07:bytes@{}", name), format!("{} on {} bytes transferred {} bytes (bound {})", name, c.n, c.bytes, bound)));
        }
    } else {
        // linear in the input and the sample, as the property states (an implementation may read a
        // sample in small pieces): 64 + (n + sample size) / 64 operations
        let bound = CALL_OPS + (c.n + c.sample_len) / 64;
        if c.budget_hit || c.ops > bound {
            return Some(Failure::new(format!("c07:ops@{}", name), format!("{} performed {} stream operations (bound {})", name, c.ops, bound)));
        }
        if c.bytes > c.n + c.sample_len + 64 {
            return Some(Failure::new(format!("c07:bytes@{}", name), format!("{} transferred {} bytes for a {}-byte sample of a {}-byte input", name, c.bytes, c.sample_len, c.n)));
        }
    }
    if c.cpu_ns > CPU_LIMIT_NS {
        return Some(Failure::new(format!("c07:cpu@{}", name), format!("{} used {:.2} s of CPU on a {}-byte input", name, c.cpu_ns as f64 / 1e9, c.n)));
    }
    None
}

/// CPU time of read_header on `bytes` (thread CPU clock, best of two runs), guarded
fn open_cpu_ns(bytes: &[u8]) -> u64 {
    let mut best = u64::MAX;
    for _ in 0..2 {
        let b = bytes.to_vec();
        let n = b.len() as u64;
        let t0 = driver::thread_cpu_ns();
        let _ = crate::engine::guard(move || mp4::Mp4Reader::read_header(std::io::Cursor::new(b), n).map(|_| ()));
        best = best.min(driver::thread_cpu_ns().saturating_sub(t0));
    }
    best
}

pub const SUPERLINEAR_FACTOR: u64 = 25;
pub const SUPERLINEAR_FLOOR_NS: u64 = 200_000_000;

/// big-tables stage: the same file with the table in another order must not cost a large multiple
/// of the ascending-order file (the two have the same length n, so a linear bound covers both)
fn superlinear(case: &AdvCase) -> Option<Failure> {
    let base = case.baseline.as_ref()?;
    let t = open_cpu_ns(&case.bytes);
    if t <= SUPERLINEAR_FLOOR_NS {
        return None;
    }
    let t0 = open_cpu_ns(base).max(2_000_000);
    if t > SUPERLINEAR_FACTOR * t0 {
        // once more, to rule out a disturbance
        let (t, t0) = (open_cpu_ns(&case.bytes), open_cpu_ns(base).max(2_000_000));
        if t > SUPERLINEAR_FLOOR_NS && t > SUPERLINEAR_FACTOR * t0 {
            return Some(Failure::new("c07:cpu-superlinear@read_header", format!("read_header used {:.3} s of CPU on a {}-byte input, {} x the {:.3} s of the same file with that table in ascending order ({})", t as f64 / 1e9, case.bytes.len(), t / t0, t0 as f64 / 1e9, case.desc)));
        }
    }
    None
}

pub fn oracle_c07(ctx: &mut Ctx, case: &AdvCase, ex: &Exercise) -> Check {
    let mut fails = Vec::new();
    if let Some(f) = superlinear(case) {
        fails.push(f);
    }
    for c in &ex.calls {
        if let Some(f) = c07_call(c) {
            if f.sig.starts_with("c07:cpu@") {
                // confirm a CPU-time finding by a second execution of the whole case
                let ex2 = driver::exercise(&case.bytes, &adv::driver_context());
                if !ex2.calls.iter().any(|c2| c2.name == c.name && c2.cpu_ns > CPU_LIMIT_NS) {
                    ctx.inconclusive.push(format!("unconfirmed CPU spike in {} ({} ns)", c.name, c.cpu_ns));
                    continue;
                }
            }
            if !fails.iter().any(|x: &Failure| x.sig == f.sig) {
                fails.push(f);
            }
        }
    }
    pick(ctx, fails)
}

pub fn oracle_c08(ctx: &mut Ctx, _case: &AdvCase, ex: &Exercise) -> Check {
    let mut fails = Vec::new();
    for c in &ex.calls {
        let name = short(&c.name);
        let total_bound = ALLOC_TOTAL_PER_BYTE * c.n + ALLOC_TOTAL_CONST;
        let single_bound = ALLOC_SINGLE_PER_BYTE * c.n + ALLOC_SINGLE_CONST;
        let f = if c.alloc.largest > single_bound {
            Some(Failure::new(format!("c08:single@{}", name), format!("{} on a {}-byte input requested {} bytes in one allocation (bound {})", name, c.n, c.alloc.largest, single_bound)))
        } else if c.alloc.total > total_bound {
            Some(Failure::new(format!("c08:total@{}", name), format!("{} on a {}-byte input requested {} bytes in total (bound {})", name, c.n, c.alloc.total, total_bound)))
        } else {
            None
        };
        if let Some(f) = f {
            if !fails.iter().any(|x: &Failure| x.sig == f.sig) {
                fails.push(f);
            }
        }
    }
    pick(ctx, fails)
}

fn reached(ex: &Exercise) -> bool {
    let open_ops = ex.calls.iter().filter(|c| c.is_open).map(|c| c.ops).max().unwrap_or(0);
    open_ops >= 4 && (ex.opened || ex.frag_opened || open_ops >= 8)
}

type Oracle = fn(&mut Ctx, &AdvCase, &Exercise) -> Check;

fn observe(ctx: &mut Ctx, case: &AdvCase, ex: &Exercise, nontrivial_kinds: &[FieldKind], base: &Base) {
    if ex.opened {
        ctx.count("input:opened");
    } else {
        ctx.count("input:rejected-by-read_header");
    }
    if ex.frag_opened {
        ctx.count("input:opened-as-fragment");
    }
    let differs = case.bytes != base.bytes;
    let kind_ok = nontrivial_kinds.is_empty() || case.touched.iter().any(|k| nontrivial_kinds.contains(k)) || case.touched.is_empty();
    if differs && reached(ex) && kind_ok {
        ctx.nontrivial(adv::content_fp(&case.bytes));
        ctx.sample(&format!("nontrivial:{}", ctx.stage_name().to_string()), &serde_json::json!({"desc": case.desc, "len": case.bytes.len(), "opened": ex.opened, "calls": ex.calls.len()}));
    }
    // measured maxima (evidence)
    let mut max_ops_per_byte = 0u64;
    let mut max_alloc_single = 0u64;
    let mut max_alloc_total = 0u64;
    for c in &ex.calls {
        if c.is_open && c.n > 0 && !c.budget_hit {
            max_ops_per_byte = max_ops_per_byte.max(c.ops / c.n.max(1));
        }
        max_alloc_single = max_alloc_single.max(c.alloc.largest);
        max_alloc_total = max_alloc_total.max(c.alloc.total);
    }
    let upd = |ctx: &mut Ctx, k: &str, v: u64| {
        let cur = ctx.extra.get(k).and_then(|x| x.as_u64()).unwrap_or(0);
        if v > cur {
            ctx.extra.insert(k.to_string(), serde_json::json!(v));
        }
    };
    upd(ctx, "max_open_ops_per_input_byte(no-violation-cases-included)", max_ops_per_byte);
    upd(ctx, "max_single_alloc_seen", max_alloc_single);
    upd(ctx, "max_total_alloc_seen", max_alloc_total);
}

pub fn run_adv(ctx: &mut Ctx, oracle: Oracle, weight: fn(FieldKind) -> u32, nt_kinds: &'static [FieldKind], chain_r: usize) {
    let ngen = ctx.pick(12usize, 60usize);
    let bases = Arc::new(adv::bases(ctx, ngen));
    let cx = adv::driver_context();
    ctx.extra.insert("base_files".into(), serde_json::json!(bases.iter().map(|b| format!("{}({}B,{} fields)", b.name, b.bytes.len(), b.fields.len())).collect::<Vec<_>>()));
    {
        let bases2 = bases.clone();
        adv::run_enumerated(ctx, &bases, &weight, chain_r, |ctx, case| {
            ctx.pre_case(case);
            let ex = driver::exercise(&case.bytes, &cx);
            observe(ctx, case, &ex, nt_kinds, &bases2[case.base]);
            let res = oracle(ctx, case, &ex);
            ctx.judge(case, res);
        });
    }
    ctx.stage("havoc");
    let cases = ctx.pick(250_000u32, 3_000_000u32) / ctx.nshards;
    let bs = bases.clone();
    let strat = adv::havoc_strategy().prop_map(move |(bf, ops)| {
        let bi = (bf as usize * bs.len()) >> 16;
        let bytes = adv::apply_havoc(&bs[bi], &ops);
        AdvCase { bytes, desc: format!("{}: havoc x{}", bs[bi].name, ops.len()), touched: vec![], base: bi, baseline: None }
    });
    let bases3 = bases.clone();
    ctx.run_prop(strat, cases, |ctx, case| {
        let ex = driver::exercise(&case.bytes, &cx);
        observe(ctx, case, &ex, &[], &bases3[case.base]);
        oracle(ctx, case, &ex)
    });
    // ---- valid files with unusual but legal content (not derived from a base by mutation) ----
    ctx.stage("structures");
    let cases = ctx.pick(24_000u32, 240_000u32) / ctx.nshards;
    let bases4 = bases.clone();
    ctx.run_prop(structure_strategy(), cases, |ctx, case| {
        let ex = driver::exercise(&case.bytes, &cx);
        if ex.opened {
            ctx.count("structures:opened");
        }
        observe(ctx, case, &ex, &[], &bases4[0]);
        oracle(ctx, case, &ex)
    });
}

/// reference-encoded movies (sample tables, fragments, metadata) whose free-form content is drawn
/// from the odd corners: handler names of every length and script, counted-string lookalikes,
/// samples around 64 KiB, an mdat that extends to the end of the file, 64-bit headers in udta
fn structure_strategy() -> impl Strategy<Value = AdvCase> {
    use crate::gen;
    let movie = prop_oneof![
        3 => gen::with_big_sample(gen::table_movie(3, 10), 0.01),
        3 => gen::with_big_sample(gen::frag_movie(3, 3, 4), 0.01),
    ];
    (movie, prop::option::weighted(0.5, gen::meta_strategy()), prop::option::weighted(0.7, crate::boxes::text()), crate::boxes::text()).prop_map(|(mut m, meta, name, meta_name)| {
        m.hdlr_name = name;
        if let Some((mut me, _)) = meta {
            me.hdlr_name = meta_name;
            m.meta = Some(me);
        }
        let b = crate::refmp4::movie::build(&m);
        AdvCase { bytes: b.bytes, desc: "generated valid structure".to_string(), touched: vec![], base: 0, baseline: None }
    })
}

/// C06 at box level: the stand-alone decoders (`ReadBox::read_box`, public API) on reference
/// encodings of generated box values and on byte-mutated versions of them; only panics count here (in the decoder or in summary()/to_json()/box_size() of what it returned)
/// (what the decoder returns is C04/C05's subject).
fn run_spec_boxes(ctx: &mut Ctx) {
    use crate::boxes::{self, KINDS};
    use crate::props::c04::Case as BoxCase;
    ctx.stage("spec-boxes");
    let per_kind = (ctx.pick(8000u32, 48_000u32) / ctx.nshards).max(6);
    for kind in KINDS {
        let s = (boxes::strategy(kind, 2), prop::collection::vec((any::<u16>(), prop_oneof![Just(0u8), Just(1u8), Just(0xffu8), Just(0x7fu8), Just(0x80u8), any::<u8>()]), 0..4)).prop_map(|(spec, muts)| BoxCase { spec, muts, mode: 1 });
        ctx.run_prop(s, per_kind, |ctx, c| spec_box_oracle(ctx, c));
    }
}

fn spec_box_oracle(ctx: &mut Ctx, c: &crate::props::c04::Case) -> Check {
    use crate::libbox::{self, Converse, Visitor};
    let kind = c.spec.kind();
    let mut b = c.spec.node().render();
    if b.len() > 8 {
        for (pf, val) in &c.muts {
            let pos = 8 + ((*pf as usize * (b.len() - 8)) >> 16);
            b[pos] = *val;
        }
    }
    ctx.count(&format!("spec-boxes:{}", if c.muts.is_empty() { "reference-bytes" } else { "mutated-bytes" }));
    ctx.nontrivial(crate::engine::fnv64(&b) ^ 0x5bec);
    let mut cv = Converse { kind, bytes: &b, compare_bytes: false, accepted: false, reencoded: false };
    libbox::RENDER_DECODED.with(|x| x.set(true));
    let r = match libbox::with_lib(&c.spec, &mut cv) {
        Some(r) => r,
        None => cv.visit(&libbox::dinf_witness()),
    };
    libbox::RENDER_DECODED.with(|x| x.set(false));
    match r {
        Err(f) if f.sig.starts_with("panic@read_box") => Err(f),
        _ => Ok(()),
    }
}

fn w_all(_k: FieldKind) -> u32 {
    1
}
fn w_c07(k: FieldKind) -> u32 {
    matches!(k, FieldKind::Size | FieldKind::LargeSize | FieldKind::Count | FieldKind::Length | FieldKind::Offset | FieldKind::Version | FieldKind::Type | FieldKind::Word) as u32
}
fn w_c08(k: FieldKind) -> u32 {
    matches!(k, FieldKind::Size | FieldKind::LargeSize | FieldKind::Count | FieldKind::Length | FieldKind::Version | FieldKind::Flags | FieldKind::Word) as u32
}

pub fn run_c06(ctx: &mut Ctx) {
    run_adv(ctx, oracle_c06, w_all, &[], 40);
    run_spec_boxes(ctx);
}
pub fn run_c07(ctx: &mut Ctx) {
    run_adv(ctx, oracle_c07, w_c07, &[FieldKind::Size, FieldKind::LargeSize, FieldKind::Count, FieldKind::Length, FieldKind::Offset, FieldKind::Version, FieldKind::Word], 6000);
}
pub fn run_c08(ctx: &mut Ctx) {
    run_adv(ctx, oracle_c08, w_c08, &[FieldKind::Size, FieldKind::LargeSize, FieldKind::Count, FieldKind::Length, FieldKind::Word], 40);
}

pub fn replay(ctx: &mut Ctx, stage: &str, case: &Value) -> Check {
    if stage == "spec-boxes" {
        let c: crate::props::c04::Case = serde_json::from_value(case.clone()).map_err(|e| Failure::new("replay:bad-case", e.to_string()))?;
        return spec_box_oracle(ctx, &c);
    }
    let c = adv::case_from_json(case).ok_or_else(|| Failure::new("replay:bad-case", "no hex field"))?;
    let ex = driver::exercise(&c.bytes, &adv::driver_context());
    match ctx.prop.clone().as_str() {
        "C06" => oracle_c06(ctx, &c, &ex),
        "C07" => oracle_c07(ctx, &c, &ex),
        _ => oracle_c08(ctx, &c, &ex),
    }
}
