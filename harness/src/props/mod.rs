//! One module per property: generator wiring + oracle + non-trivial rule.
use crate::engine::{Check, Ctx};
use serde_json::Value;

pub mod c01;
pub mod c02;
pub mod c03;
pub mod c14;
pub mod c17;

pub struct PropMeta {
    pub level: &'static str,
    pub rule: &'static str,
    pub assumptions: &'static [&'static str],
}

pub fn meta(prop: &str) -> PropMeta {
    match prop {
        "C01" => c01::META,
        "C02" => c02::META,
        "C03" => c03::META,
        "C14" => c14::META,
        "C17" => c17::META,
        _ => PropMeta { level: "exploration", rule: "", assumptions: &[] },
    }
}

pub fn known(prop: &str) -> bool {
    matches!(prop, "C01" | "C02" | "C03" | "C14" | "C17")
}

pub fn run(ctx: &mut Ctx) {
    match ctx.prop.clone().as_str() {
        "C01" => c01::run(ctx),
        "C02" => c02::run(ctx),
        "C03" => c03::run(ctx),
        "C14" => c14::run(ctx),
        "C17" => c17::run(ctx),
        p => panic!("unknown property {}", p),
    }
}

/// re-run one saved case through the oracle, bypassing all generators
pub fn replay(ctx: &mut Ctx, stage: &str, case: &Value) -> Check {
    match ctx.prop.clone().as_str() {
        "C01" => c01::replay(ctx, stage, case),
        "C02" => c02::replay(ctx, stage, case),
        "C03" => c03::replay(ctx, stage, case),
        "C14" => c14::replay(ctx, stage, case),
        "C17" => c17::replay(ctx, stage, case),
        p => panic!("unknown property {}", p),
    }
}
