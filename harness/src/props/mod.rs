//! One module per property: generator wiring + oracle + non-trivial rule.
use crate::engine::{Check, Ctx};
use serde_json::Value;

pub mod advp;
pub mod c01;
pub mod c02;
pub mod c03;
pub mod c04;
pub mod c05;
pub mod c09;
pub mod c10;
pub mod c11;
pub mod c12;
pub mod c13;
pub mod c14;
pub mod c15;
pub mod c16;
pub mod c17;
pub mod c18;

pub struct PropMeta {
    pub level: &'static str,
    pub rule: &'static str,
    pub assumptions: &'static [&'static str],
}

pub fn meta(prop: &str) -> PropMeta {
    match prop {
        "C01" => c01::META,
        "C02" => c02::META,
        "C03" => c03::META,
        "C04" => c04::META,
        "C05" => c05::META,
        "C06" => advp::META_C06,
        "C07" => advp::META_C07,
        "C08" => advp::META_C08,
        "C09" => c09::META,
        "C10" => c10::META,
        "C11" => c11::META,
        "C12" => c12::META,
        "C13" => c13::META,
        "C14" => c14::META,
        "C15" => c15::META,
        "C16" => c16::META,
        "C17" => c17::META,
        "C18" => c18::META,
        _ => PropMeta { level: "exploration", rule: "", assumptions: &[] },
    }
}

pub fn known(prop: &str) -> bool {
    matches!(prop, "C01" | "C02" | "C03" | "C04" | "C05" | "C06" | "C07" | "C08" | "C09" | "C10" | "C11" | "C12" | "C13" | "C14" | "C15" | "C16" | "C17" | "C18")
}

pub fn run(ctx: &mut Ctx) {
    match ctx.prop.clone().as_str() {
        "C01" => c01::run(ctx),
        "C02" => c02::run(ctx),
        "C03" => c03::run(ctx),
        "C04" => c04::run(ctx),
        "C05" => c05::run(ctx),
        "C06" => advp::run_c06(ctx),
        "C07" => advp::run_c07(ctx),
        "C08" => advp::run_c08(ctx),
        "C09" => c09::run(ctx),
        "C10" => c10::run(ctx),
        "C11" => c11::run(ctx),
        "C12" => c12::run(ctx),
        "C13" => c13::run(ctx),
        "C14" => c14::run(ctx),
        "C15" => c15::run(ctx),
        "C16" => c16::run(ctx),
        "C17" => c17::run(ctx),
        "C18" => c18::run(ctx),
        p => panic!("unknown property {}", p),
    }
}

/// re-run one saved case through the oracle, bypassing all generators
pub fn replay(ctx: &mut Ctx, stage: &str, case: &Value) -> Check {
    match ctx.prop.clone().as_str() {
        "C01" => c01::replay(ctx, stage, case),
        "C02" => c02::replay(ctx, stage, case),
        "C03" => c03::replay(ctx, stage, case),
        "C04" => c04::replay(ctx, stage, case),
        "C05" => c05::replay(ctx, stage, case),
        "C06" | "C07" | "C08" => advp::replay(ctx, stage, case),
        "C09" => c09::replay(ctx, stage, case),
        "C10" => c10::replay(ctx, stage, case),
        "C11" => c11::replay(ctx, stage, case),
        "C12" => c12::replay(ctx, stage, case),
        "C13" => c13::replay(ctx, stage, case),
        "C14" => c14::replay(ctx, stage, case),
        "C15" => c15::replay(ctx, stage, case),
        "C16" => c16::replay(ctx, stage, case),
        "C17" => c17::replay(ctx, stage, case),
        "C18" => c18::replay(ctx, stage, case),
        p => panic!("unknown property {}", p),
    }
}
