//! C12 — parse result is independent of physical layout choices (metamorphic).
use super::PropMeta;
use crate::adv;
use crate::engine::{guarded, Check, Ctx, Failure, Fnv};
use crate::gen;
use crate::oracle::{check_samples, open, SampleCheckOpts};
use crate::refmp4::movie::*;
use crate::refmp4::{cc, Cc, Node};
use crate::{ensure, fail};
use mp4::Metadata;
use proptest::prelude::*;
use serde::{Deserialize, Serialize};
use serde_json::Value;

pub const META: PropMeta = PropMeta {
    level: "exploration",
    rule: "logical movies from the C03/C09/C18 generators (plus hand-built movies covering every box kind) x layout transformations resolved against the rendered box tree: insert a free/skip/unknown box at the top level (after ftyp) or at any child position of a container that iterates over its children (moov, trak, mdia, minf, stbl, dinf, udta, meta, ilst, ilst items, moof, traf, mvex, and inside avc1/mp4a before or after avcC/esds); swap order-free siblings (moov<->mdat at top level; children of moov, trak, mdia, minf, stbl, udta, ilst, traf, ISO-style meta, trafs of a moof when none uses the implicit base and no track has two trafs in it (their order is the sample order)); 64-bit size header on any box; 1..15 spare bytes after the last field of fixed-layout/table boxes. Stage 1: every single transformation at every applicable site of each base movie (exhaustive); stage 2: random combinations of 2..6. Oracle: the variant opens to the same track ids, accessor values and metadata as the base, and every sample equals the builder's ground truth for the variant (same bytes/timing; sample_offset shifted by exactly the layout change). Non-trivial = at least one transformation inside a nested container (depth >= 2). Distinct = hash of (movie, transformations).",
    assumptions: &["excluded by the statement's wording: containers that do not iterate (stsd, edts, dref, hev1, vp09), QuickTime-style meta with something before hdlr, trailing bytes in payload-absorbing boxes (ftyp, hdlr, emsg, data, url)", "mvex children are not permuted (the library keeps a single trex: known finding KF-C09-single-trex)"],
};

#[derive(Clone, Debug, Serialize, Deserialize)]
pub struct Case {
    pub movie: Movie,
    /// (site fraction, argument) resolved against the site list of the base tree
    pub picks: Vec<(u16, u16)>,
    /// already resolved transformations (filled in by the oracle for replay/reporting)
    #[serde(default)]
    pub resolved: Vec<Xform>,
}

#[derive(Clone, Debug)]
pub enum Site {
    Insert { path: Vec<usize>, pos: usize },
    Large { path: Vec<usize> },
    Spare { path: Vec<usize> },
    Swap { path: Vec<usize>, i: usize, j: usize },
}

const ITERATING: [&str; 14] = ["moov", "trak", "mdia", "minf", "stbl", "dinf", "udta", "meta", "ilst", "moof", "traf", "mvex", "avc1", "mp4a"];
pub const SPARE_KINDS: [&str; 20] = SPARE_OK;
const SPARE_OK: [&str; 20] = ["mvhd", "tkhd", "mdhd", "vmhd", "smhd", "stts", "ctts", "stss", "stsc", "stsz", "stco", "co64", "elst", "mehd", "trex", "mfhd", "tfhd", "tfdt", "trun", "stsd"];
const SWAP_PARENTS: [&str; 8] = ["moov", "trak", "mdia", "minf", "stbl", "udta", "ilst", "traf"];

fn is(t: &Cc, names: &[&str]) -> bool {
    names.iter().any(|n| *t == cc(n))
}

fn walk_sites(n: &Node, path: &mut Vec<usize>, in_ilst: bool, m: &Movie, out: &mut Vec<Site>) {
    out.push(Site::Large { path: path.clone() });
    if is(&n.typ, &SPARE_OK) {
        out.push(Site::Spare { path: path.clone() });
    }
    let kids: Vec<&Node> = n.children().collect();
    let iterating = is(&n.typ, &ITERATING) || in_ilst;
    if iterating {
        let qt_meta = n.typ == cc("meta") && !matches!(n.parts.first(), Some(crate::refmp4::Part::Raw(_)));
        for pos in 0..=kids.len() {
            if qt_meta && pos == 0 {
                continue; // QuickTime-style meta is recognised by hdlr coming first
            }
            out.push(Site::Insert { path: path.clone(), pos });
        }
    }
    let swap_ok = is(&n.typ, &SWAP_PARENTS) || (n.typ == cc("meta") && matches!(n.parts.first(), Some(crate::refmp4::Part::Raw(_)))) || (n.typ == cc("moof") && m.frags.iter().all(|f| f.trafs.iter().all(|t| t.base != BaseMode::Neither) && { let mut seen = std::collections::BTreeSet::new(); f.trafs.iter().all(|t| seen.insert(t.track)) }));
    if swap_ok {
        for i in 0..kids.len() {
            for j in i + 1..kids.len() {
                // inside moov the relative order of mvex and trak is free, but not trex order: mvex is not a swap parent
                out.push(Site::Swap { path: path.clone(), i, j });
            }
        }
    }
    for (i, k) in kids.iter().enumerate() {
        path.push(i);
        walk_sites(k, path, n.typ == cc("ilst"), m, out);
        path.pop();
    }
}

pub fn sites(tree: &[Node], m: &Movie) -> Vec<Site> {
    let mut out = Vec::new();
    // top level: inserts after ftyp; moov <-> main mdat swap
    for pos in 1..=tree.len() {
        out.push(Site::Insert { path: vec![], pos });
    }
    let moov_i = tree.iter().position(|n| n.typ == cc("moov"));
    let has_main_mdat = m.tracks.iter().any(|t| !t.chunks.is_empty()) || m.frags.is_empty();
    let mdat_i = if has_main_mdat { tree.iter().position(|n| n.typ == cc("mdat")) } else { None };
    if let (Some(a), Some(b)) = (moov_i, mdat_i) {
        // only when adjacent initial part (ftyp, moov, mdat in either order)
        if a.max(b) <= 2 {
            out.push(Site::Swap { path: vec![], i: a.min(b), j: a.max(b) });
        }
    }
    for (i, n) in tree.iter().enumerate() {
        let mut p = vec![i];
        walk_sites(n, &mut p, false, m, &mut out);
    }
    out
}

pub fn resolve(site: &Site, arg: u16) -> Xform {
    match site {
        Site::Insert { path, pos } => {
            let typ = match arg % 4 {
                0 => cc("free"),
                1 => cc("skip"),
                2 => cc("xYz1"),
                _ => cc("uuid"),
            };
            Xform::Insert { path: path.clone(), pos: *pos, typ, len: (arg / 4) % 41, large: (arg / 256) % 3 == 0 }
        }
        Site::Large { path } => Xform::Large { path: path.clone() },
        Site::Spare { path } => Xform::Spare { path: path.clone(), n: 1 + (arg % 15) as u8 },
        Site::Swap { path, i, j } => Xform::Swap { path: path.clone(), i: *i, j: *j },
    }
}

fn depth(x: &Xform) -> usize {
    match x {
        Xform::Insert { path, .. } => path.len() + 1,
        Xform::Large { path } | Xform::Spare { path, .. } => path.len(),
        Xform::Swap { path, .. } => path.len() + 1,
    }
}

#[derive(PartialEq, Debug)]
struct Digest {
    movie: String,
    tracks: Vec<String>,
    meta: String,
}

fn digest(bytes: &[u8]) -> Result<Digest, Failure> {
    let r = open(bytes)?;
    digest_of(&r)
}

fn digest_of<R: std::io::Read + std::io::Seek>(r: &mp4::Mp4Reader<R>) -> Result<Digest, Failure> {
    let movie = guarded("movie accessors", || format!("{} {} {:?} {:?} {} {}", r.major_brand(), r.minor_version(), r.compatible_brands(), r.duration(), r.timescale(), r.is_fragmented()))?;
    let mut ids: Vec<u32> = r.tracks().keys().copied().collect();
    ids.sort();
    let mut tracks = Vec::new();
    for id in ids {
        let t = &r.tracks()[&id];
        tracks.push(guarded("track accessors", || {
            format!(
                "{} {:?} {:?} {:?} {}x{} {} {} {:?} {} {} {:?} {:?} {:?} {:?} {:?} {:?}",
                t.track_id(),
                t.track_type().map(|x| x.to_string()).map_err(|e| e.to_string()),
                t.media_type().map(|x| x.to_string()).map_err(|e| e.to_string()),
                t.box_type().map(|x| x.to_string()).map_err(|e| e.to_string()),
                t.width(),
                t.height(),
                t.language(),
                t.timescale(),
                t.duration(),
                t.bitrate(),
                t.sample_count(),
                t.video_profile().map(|x| x.to_string()).map_err(|e| e.to_string()),
                t.sequence_parameter_set().map(|x| x.to_vec()).map_err(|e| e.to_string()),
                t.picture_parameter_set().map(|x| x.to_vec()).map_err(|e| e.to_string()),
                t.audio_profile().map(|x| x.to_string()).map_err(|e| e.to_string()),
                t.sample_freq_index().map(|x| x as u8).map_err(|e| e.to_string()),
                t.channel_config().map(|x| x as u8).map_err(|e| e.to_string()),
            )
        })?);
    }
    // parsed structure that no accessor exposes but that is part of the (public) parse result and
    // does not depend on positions: edit lists, presence of optional containers
    for (i, tk) in r.moov.traks.iter().enumerate() {
        let extra = guarded("trak structure", || format!(" edts={:?} trak.meta={} tkhd=({},{},{},{:?})", tk.edts, tk.meta.is_some(), tk.tkhd.track_id, tk.tkhd.layer, tk.tkhd.alternate_group, tk.tkhd.matrix))?;
        if let Some(t) = tracks.iter_mut().find(|t: &&mut String| t.starts_with(&format!("{} ", tk.tkhd.track_id))) {
            t.push_str(&extra);
        } else if let Some(t) = tracks.get_mut(i) {
            t.push_str(&extra);
        }
    }
    let movie = format!("{} mvex={} udta={} moov.meta={} next_track_id={} rate={:?}", movie, r.moov.mvex.is_some(), r.moov.udta.is_some(), r.moov.meta.is_some(), r.moov.mvhd.next_track_id, r.moov.mvhd.rate);
    let md = r.metadata();
    let meta = guarded("metadata", || format!("{:?} {:?} {:?} {:?}", md.title(), md.year(), md.poster().map(|p| p.to_vec()), md.summary()))?;
    Ok(Digest { movie, tracks, meta })
}

const OPTS: SampleCheckOpts = SampleCheckOpts { check_sync: true, prefix: "c12" };

pub fn oracle(ctx: &mut Ctx, case: &Case) -> Check {
    let base = build(&case.movie);
    let all = sites(&base.tree, &case.movie);
    if all.is_empty() {
        return Ok(());
    }
    let xforms: Vec<Xform> = if !case.resolved.is_empty() { case.resolved.clone() } else { case.picks.iter().map(|(f, a)| resolve(&all[(*f as usize * all.len()) >> 16], *a)).collect() };
    let mut variant = case.movie.clone();
    variant.xforms = xforms.clone();
    let vb = build(&variant);
    let tag = |f: Failure| Failure::new(f.sig, format!("{} [transformations: {:?}]", f.detail, xforms));
    // the base must itself be readable (otherwise the case says nothing about layout)
    let d0 = match digest(&base.bytes) {
        Ok(d) => d,
        Err(_) => {
            ctx.count("base-movie-not-readable(skipped)");
            return Ok(());
        }
    };
    let d1 = digest(&vb.bytes).map_err(|f| tag(Failure::new(format!("c12:variant-{}", f.sig), f.detail)))?;
    if d0.movie != d1.movie {
        return Err(tag(Failure::new("c12:movie-accessors", format!("movie accessors differ: [{}] vs [{}]", d0.movie, d1.movie))));
    }
    ensure!(d0.tracks.len() == d1.tracks.len(), "c12:track-set", "{} tracks in the base, {} in the variant [{:?}]", d0.tracks.len(), d1.tracks.len(), xforms);
    for (a, b) in d0.tracks.iter().zip(d1.tracks.iter()) {
        if a != b {
            return Err(tag(Failure::new("c12:track-accessors", format!("track accessors differ: [{}] vs [{}]", a, b))));
        }
    }
    if d0.meta != d1.meta {
        return Err(tag(Failure::new("c12:metadata", format!("metadata differs: [{}] vs [{}]", d0.meta.chars().take(100).collect::<String>(), d1.meta.chars().take(100).collect::<String>()))));
    }
    let mut r = open(&vb.bytes)?;
    check_samples(&mut r, &variant, &vb.truth, &SampleCheckOpts { check_sync: variant.frags.is_empty(), ..OPTS }).map_err(|f| super::c09::tag_multi_trex_pub(&variant, f)).map_err(tag)?;
    // the same through the init segment + separately opened media segment path
    if !variant.frags.is_empty() && !xforms.iter().any(|x| matches!(x, Xform::Swap { path, .. } if path.is_empty())) {
        let init = open(&vb.bytes[..vb.init_len])?;
        let seg = vb.segment.clone();
        let n = seg.len() as u64;
        let mut sr = match guarded("read_fragment_header", || init.read_fragment_header(std::io::Cursor::new(seg), n))? {
            Ok(r) => r,
            Err(e) => return Err(tag(Failure::new(format!("c12:variant-segment-open-failed:{}", crate::engine::normalize_msg(&e.to_string())), format!("read_fragment_header failed on the variant's media segment: {}", e)))),
        };
        let shifted: Vec<TrackTruth> = vb
            .truth
            .iter()
            .map(|t| {
                let mut t = t.clone();
                for s in t.samples.iter_mut() {
                    s.offset = s.offset.wrapping_sub(vb.init_len as u64);
                }
                t
            })
            .collect();
        check_samples(&mut sr, &variant, &shifted, &SampleCheckOpts { check_sync: false, prefix: "c12seg" }).map_err(|f| super::c09::tag_multi_trex_pub(&variant, f)).map_err(tag)?;
        ctx.count("path:init+segment");
    }
    // physical size as a layout choice: the same variant with a top-level free box of about 4 or
    // 5 GiB (64-bit size header) after ftyp, after the second box or at the end, served from a
    // stream that does not store the gap. One case in four.
    let hsel = crate::engine::fnv64(serde_json::to_string(&xforms).unwrap_or_default().as_bytes()) ^ crate::engine::fnv64(&base.bytes);
    if hsel % 4 == 0 && !xforms.iter().any(|x| matches!(x, Xform::Swap { path, .. } | Xform::Insert { path, .. } if path.is_empty())) {
        let lens = [(1u64 << 32) - 24, (1u64 << 32) - 16, 1u64 << 32, (1u64 << 32) + 1, 5u64 << 30];
        let mut big = variant.clone();
        big.huge = Some((((hsel >> 8) % 3) as u8, lens[((hsel >> 16) % lens.len() as u64) as usize]));
        let bb = build(&big);
        let desc = format!("{:?} + {:?}", xforms, big.huge);
        let tagb = |f: Failure| Failure::new(f.sig, format!("{} [transformations: {}]", f.detail, desc));
        let mut rb = crate::oracle::open_built(&bb).map_err(|f| tagb(Failure::new(format!("c12:huge-variant-{}", f.sig), f.detail)))?;
        let db = digest_of(&rb).map_err(tagb)?;
        // (the builder switches tracks behind the gap to 64-bit chunk offsets: table form is layout too)
        if d0.movie != db.movie || d0.tracks != db.tracks || d0.meta != db.meta {
            return Err(tagb(Failure::new("c12:huge-variant-accessors", "accessors differ once the file is physically larger than 4 GiB".to_string())));
        }
        check_samples(&mut rb, &big, &bb.truth, &SampleCheckOpts { check_sync: big.frags.is_empty(), prefix: "c12huge" }).map_err(|f| super::c09::tag_multi_trex_pub(&big, f)).map_err(tagb)?;
        ctx.count("xform:file-larger-than-4GiB");
    }
    // classes
    for x in &xforms {
        ctx.count(match x {
            Xform::Insert { path, .. } if path.is_empty() => "xform:insert-top-level",
            Xform::Insert { .. } => "xform:insert-in-container",
            Xform::Large { .. } => "xform:64-bit-header",
            Xform::Spare { .. } => "xform:spare-bytes",
            Xform::Swap { path, .. } if path.is_empty() => "xform:swap-moov-mdat",
            Xform::Swap { .. } => "xform:swap-siblings",
        });
    }
    if !case.movie.frags.is_empty() {
        ctx.count("movie:fragmented");
    }
    if case.movie.meta.is_some() {
        ctx.count("movie:with-metadata");
    }
    if xforms.iter().any(|x| depth(x) >= 2) {
        let mut h = Fnv::new();
        h.write(serde_json::to_string(&xforms).unwrap_or_default().as_bytes());
        h.write_u64(crate::engine::fnv64(&base.bytes));
        ctx.nontrivial(h.finish());
        ctx.sample(if xforms.len() == 1 { "single-transformation" } else { "combination" }, &serde_json::json!({"movie_tracks": case.movie.tracks.len(), "fragments": case.movie.frags.len(), "file_len": base.bytes.len(), "variant_len": vb.bytes.len(), "transformations": xforms}));
    }
    Ok(())
}

pub fn base_movies(ctx: &Ctx) -> Vec<Movie> {
    let mut v = Vec::new();
    for i in 0..4 {
        v.push(adv::kitchen_sink(i));
    }
    for i in 0..2 {
        let mut m = adv::kitchen_sink_frag(i);
        // same trex default everywhere (single-trex finding is C09's)
        for t in m.tracks.iter_mut() {
            t.trex_dur = 100;
        }
        v.push(m);
    }
    let mut seed = [0u8; 32];
    seed[..8].copy_from_slice(&ctx.seed.to_le_bytes());
    seed[8] = 0x12;
    let mut runner = proptest::test_runner::TestRunner::new_with_rng(proptest::test_runner::Config::default(), proptest::test_runner::TestRng::from_seed(proptest::test_runner::RngAlgorithm::ChaCha, &seed));
    let n = ctx.pick(30usize, 100usize);
    for i in 0..n {
        v.push(gen::draw(&movie_strategy(), &mut runner));
        let _ = i;
    }
    v
}

pub fn movie_strategy() -> impl Strategy<Value = Movie> {
    prop_oneof![
        3 => (gen::table_movie(3, 8), any::<u16>()).prop_map(|(mut m, x)| {
            gen::logical_extras(&mut m, x);
            m
        }),
        2 => gen::frag_movie(3, 3, 4).prop_map(|mut m| {
            let d = m.tracks[0].trex_dur;
            for t in m.tracks.iter_mut() {
                t.trex_dur = d;
            }
            m
        }),
        2 => (gen::table_movie(2, 5), gen::meta_strategy()).prop_map(|(mut m, (meta, _))| {
            m.meta = Some(meta);
            m
        }),
    ]
}

/// 'header-form' stage: a free/unknown box inserted into a box that has children but does *not*
/// iterate over them (hev1, vp09, edts, stsd, dref, ...). The statement does not say such an
/// insertion is harmless - but whatever the reader makes of it, the 32-bit and the 64-bit size
/// header of the inserted box are two layouts of the same thing and must be treated alike.
#[derive(Clone, Debug, Serialize, Deserialize)]
pub struct FormCase {
    pub movie: Movie,
    pub path: Vec<usize>,
    pub pos: usize,
    pub typ: Cc,
    pub len: u16,
}

fn strict_sites(n: &Node, path: &mut Vec<usize>, in_ilst: bool, out: &mut Vec<(Vec<usize>, usize, Cc)>) {
    let kids: Vec<&Node> = n.children().collect();
    if !kids.is_empty() && !(is(&n.typ, &ITERATING) || in_ilst) {
        for pos in 0..=kids.len() {
            out.push((path.clone(), pos, n.typ));
        }
    }
    for (i, k) in kids.iter().enumerate() {
        path.push(i);
        strict_sites(k, path, n.typ == cc("ilst"), out);
        path.pop();
    }
}

pub fn form_oracle(ctx: &mut Ctx, c: &FormCase) -> Check {
    let mut out = Vec::new();
    for large in [false, true] {
        let mut v = c.movie.clone();
        v.xforms = vec![Xform::Insert { path: c.path.clone(), pos: c.pos, typ: c.typ, len: c.len, large }];
        let vb = build(&v);
        out.push(digest(&vb.bytes));
    }
    let (a, b) = (&out[0], &out[1]);
    ctx.count(match (a.is_ok(), b.is_ok()) {
        (true, true) => "header-form:both-forms-open",
        (false, false) => "header-form:both-forms-rejected",
        _ => "header-form:forms-treated-differently",
    });
    ctx.nontrivial(crate::engine::fp_of(&(&c.path, c.pos, c.typ, c.len, crate::engine::fp_of(&c.movie))));
    match (a, b) {
        (Ok(x), Ok(y)) => {
            ensure!(x == y, "c12:header-form-results", "a '{}' box inserted as child {} of the box at {:?} gives different results with a 32-bit and with a 64-bit size header", String::from_utf8_lossy(&c.typ), c.pos, c.path);
            Ok(())
        }
        (Err(_), Err(_)) => Ok(()),
        (Ok(_), Err(f)) => fail!("c12:header-form-64-bit-rejected", "a '{}' box inserted as child {} of the box at {:?} is accepted with a 32-bit size header but rejected with a 64-bit one: {}", String::from_utf8_lossy(&c.typ), c.pos, c.path, f.detail),
        (Err(f), Ok(_)) => fail!("c12:header-form-32-bit-rejected", "a '{}' box inserted as child {} of the box at {:?} is accepted with a 64-bit size header but rejected with a 32-bit one: {}", String::from_utf8_lossy(&c.typ), c.pos, c.path, f.detail),
    }
}

pub fn run(ctx: &mut Ctx) {
    ctx.stage("header-form");
    {
        let bases = base_movies(ctx);
        let mut idx = 0u64;
        for m in &bases {
            let b = build(m);
            let mut ss = Vec::new();
            for (i, n) in b.tree.iter().enumerate() {
                strict_sites(n, &mut vec![i], false, &mut ss);
            }
            for (path, pos, host) in ss {
                for (k, typ) in [cc("free"), cc("xYz1")].into_iter().enumerate() {
                    let my = idx;
                    idx += 1;
                    if !ctx.enter(my) {
                        continue;
                    }
                    ctx.count(&format!("header-form:host:{}", String::from_utf8_lossy(&host)));
                    let c = FormCase { movie: m.clone(), path: path.clone(), pos, typ, len: ((my as u16).wrapping_mul(7) + k as u16) % 23 };
                    ctx.pre_case(&c);
                    let res = form_oracle(ctx, &c);
                    ctx.judge(&c, res);
                }
            }
        }
        ctx.extra.insert("header_form_cases".into(), serde_json::json!(idx));
    }
    ctx.stage("single");
    let bases = base_movies(ctx);
    let mut idx = 0u64;
    let mut total_sites = 0usize;
    for m in &bases {
        let b = build(m);
        let ss = sites(&b.tree, m);
        total_sites += ss.len();
        for (si, s) in ss.iter().enumerate() {
            let my = idx;
            idx += 1;
            if !ctx.enter(my) {
                continue;
            }
            let arg = (si as u16).wrapping_mul(37).wrapping_add(my as u16);
            let case = Case { movie: m.clone(), picks: vec![], resolved: vec![resolve(s, arg)] };
            let res = oracle(ctx, &case);
            ctx.judge(&case, res);
        }
    }
    ctx.extra.insert("single_sites_total".into(), serde_json::json!(total_sites));
    ctx.extra.insert("base_movies".into(), serde_json::json!(bases.len()));
    ctx.stage("combinations");
    let cases = ctx.pick(150_000u32, 1_500_000u32) / ctx.nshards;
    let strat = (movie_strategy(), prop::collection::vec((any::<u16>(), any::<u16>()), 2..=6)).prop_map(|(movie, picks)| Case { movie, picks, resolved: vec![] });
    ctx.run_prop(strat, cases, |ctx, c| oracle(ctx, c));
}

pub fn replay(ctx: &mut Ctx, stage: &str, case: &Value) -> Check {
    if stage == "header-form" {
        let c: FormCase = serde_json::from_value(case.clone()).map_err(|e| Failure::new("replay:bad-case", e.to_string()))?;
        return form_oracle(ctx, &c);
    }
    let c: Case = serde_json::from_value(case.clone()).map_err(|e| Failure::new("replay:bad-case", e.to_string()))?;
    oracle(ctx, &c)
}
