//! C01 — muxed samples read back exactly (mux -> demux fidelity).
use super::PropMeta;
use crate::engine::{guard, guarded, Check, Ctx, Failure, Fnv};
use crate::mux::{self, MKind, MOp, MTrack, MuxCase, MuxRun};
use crate::refmp4::sample_bytes;
use crate::{ensure, fail};
use serde_json::Value;
use std::io::Cursor;

pub const META: PropMeta = PropMeta {
    level: "exploration",
    rule: "stateful generation: movie config, 1..5 track configs of every media kind, then a vec of write_sample ops (valid or with a bad track id), finished by write_end; interpreted against Mp4Writer over an in-memory cursor (one history in ~15: over a legal sink that takes only 1..40 bytes per write call); sample sizes include an occasional 64 KiB..200 KB sample; configurations add_track must refuse are interleaved; oracle = per-track model of accepted samples compared with what Mp4Reader reads back (bytes, duration, rendering offset, sync, start time, count, ids past the end), rejected calls must return Err and leave the output byte-identical to the history without them. Small scope: every history of <=3 (thorough 4) ops over 2 tracks with per-op alphabet size{0,3} x dur{0,ts/2,ts} x cts{0,-1} x sync{0,1}. Non-trivial = >=3 accepted samples and at least one of: a track with >=2 chunks, >=2 tracks interleaved, a size change after >=2 equal sizes, first non-zero cts at index>=2, a non-sync sample, a zero-length sample, a rejected call. Distinct = hash of the whole history.",
    assumptions: &["Mp4Reader is used to read back (it is the subject of C03, checked independently against the reference encoder)", "histories keep every track duration in movie ticks below 2^62 (larger ones are not representable in ISO-BMFF; C17 covers them for panic-freedom)"],
};

pub fn fingerprint(c: &MuxCase) -> u64 {
    let mut h = Fnv::new();
    h.write_u64(c.timescale as u64);
    for t in &c.tracks {
        h.write_u64(t.timescale as u64);
        h.write(format!("{:?}", std::mem::discriminant(&t.kind)).as_bytes());
    }
    for o in &c.ops {
        h.write_u64(o.track as u64 | (o.size as u64) << 32);
        h.write_u64(o.dur as u64 | (o.cts as u32 as u64) << 32);
        h.write_u64(o.sync as u64);
    }
    h.finish()
}

pub struct HistClass {
    pub nontrivial: bool,
}

pub fn classify(ctx: &mut Ctx, c: &MuxCase, run: &MuxRun<Cursor<Vec<u8>>>, chunk_counts: &[usize]) -> HistClass {
    let accepted: usize = run.model.iter().map(|m| m.len()).sum();
    let mut any = false;
    if chunk_counts.iter().any(|n| *n >= 2) {
        ctx.count("hist:track-with->=2-chunks");
        any = true;
    }
    // interleaving: the sequence of valid track ids switches at least twice
    let seq: Vec<u32> = c.ops.iter().filter(|o| o.track >= 1 && (o.track as usize) <= run.model.len()).map(|o| o.track).collect();
    let switches = seq.windows(2).filter(|w| w[0] != w[1]).count();
    if switches >= 2 {
        ctx.count("hist:interleaved-tracks");
        any = true;
    }
    for m in &run.model {
        // size change after >= 2 equal sizes
        if m.len() >= 3 {
            let mut eq = 1;
            for i in 1..m.len() {
                if m[i].size == m[i - 1].size {
                    eq += 1;
                } else {
                    if eq >= 2 && m[0].size != 0 {
                        ctx.count("hist:fixed->variable-size-switch");
                        any = true;
                    }
                    break;
                }
            }
        }
        if let Some(i) = m.iter().position(|s| s.cts != 0) {
            if i >= 2 {
                ctx.count("hist:late-first-cts");
                any = true;
            }
        }
        if m.iter().any(|s| !s.sync) {
            ctx.count("hist:non-sync-sample");
            any = true;
        }
        if !m.is_empty() && m.iter().all(|s| !s.sync) {
            ctx.count("hist:track-without-any-sync");
        }
        if m.iter().any(|s| s.size == 0) {
            ctx.count("hist:zero-length-sample");
            any = true;
        }
        if !m.is_empty() && m.iter().all(|s| s.size == 0) {
            ctx.count("hist:track-of-only-zero-length");
        }
    }
    if c.ops.iter().any(|o| o.track == 0 || (o.track as usize) > run.model.len()) {
        ctx.count("hist:rejected-call");
        any = true;
    }
    if accepted == 0 {
        ctx.count("hist:no-samples");
    }
    if c.tracks.len() >= 2 {
        ctx.count("hist:multi-track");
    }
    HistClass { nontrivial: accepted >= 3 && any }
}

/// read back and compare with the model
pub fn check_readback(case: &MuxCase, run: &MuxRun<Cursor<Vec<u8>>>, bytes: &[u8]) -> Result<Vec<usize>, Failure> {
    let mut reader = crate::oracle::open(bytes)?;
    let mut ids: Vec<u32> = reader.tracks().keys().copied().collect();
    ids.sort();
    let want: Vec<u32> = (1..=run.model.len() as u32).collect();
    ensure!(ids == want, "c01:tracks", "track ids read back {:?}, expected {:?}", ids, want);
    let mut chunk_counts = Vec::new();
    for (ti, m) in run.model.iter().enumerate() {
        let id = ti as u32 + 1;
        let n = m.len() as u32;
        {
            let stbl = &reader.tracks()[&id].trak.mdia.minf.stbl;
            chunk_counts.push(stbl.stco.as_ref().map(|s| s.entries.len()).unwrap_or(0) + stbl.co64.as_ref().map(|s| s.entries.len()).unwrap_or(0));
        }
        match guarded("sample_count", || reader.sample_count(id))? {
            Ok(c) => ensure!(c == n, "c01:count", "track {}: sample_count {} but {} samples were written", id, c, n),
            Err(e) => fail!("c01:count-err", "track {}: {}", id, e),
        }
        let mut start = 0u64;
        for k in 1..=n {
            let ms = &m[k as usize - 1];
            let s = match guarded("read_sample", || reader.read_sample(id, k))? {
                Ok(Some(s)) => s,
                Ok(None) => fail!("c01:none", "track {} sample {} of {}: read_sample returned None", id, k, n),
                Err(e) => fail!(format!("c01:read-err:{}", crate::engine::normalize_msg(&e.to_string())), "track {} sample {} of {}: read_sample error: {}", id, k, n, e),
            };
            let want = sample_bytes(id, k - 1, ms.size);
            ensure!(s.bytes.len() == want.len(), "c01:size", "track {} sample {}: {} bytes read, {} written", id, k, s.bytes.len(), want.len());
            ensure!(s.bytes[..] == want[..], "c01:bytes", "track {} sample {}: bytes differ from what was written", id, k);
            ensure!(s.duration == ms.dur, "c01:dur", "track {} sample {}: duration {} != {}", id, k, s.duration, ms.dur);
            ensure!(s.rendering_offset == ms.cts, "c01:cts", "track {} sample {}: rendering_offset {} != {}", id, k, s.rendering_offset, ms.cts);
            ensure!(s.is_sync == ms.sync, "c01:sync", "track {} sample {}: is_sync {} != {} (track has {} sync samples of {})", id, k, s.is_sync, ms.sync, m.iter().filter(|x| x.sync).count(), n);
            ensure!(s.start_time == start, "c01:start", "track {} sample {}: start_time {} != {}", id, k, s.start_time, start);
            start += ms.dur as u64;
        }
        for k in [n + 1, n + 2] {
            if let Ok(Ok(Some(_))) = guard(|| reader.read_sample(id, k)) {
                fail!("c01:past-end", "track {} has {} samples but read_sample({}) yielded one", id, n, k);
            }
        }
    }
    let _ = case;
    Ok(chunk_counts)
}

pub fn oracle(ctx: &mut Ctx, case: &MuxCase) -> Check {
    if case.sink >> 16 != 0 {
        ctx.count("sink:stale-bytes-behind-the-start(pre-sized/re-used buffer)");
    }
    if case.sink & 0xfff != 0 {
        ctx.count("sink:short-writes");
    }
    let (run, bytes) = mux::run_mux_vec(case);
    if let Some(f) = mux::first_panic(&run) {
        return Err(f);
    }
    // calls inside the documented domain must be accepted, or the history is outside the property
    let v = mux::judge_calls(case, &run);
    if v.accepted_bad_sample {
        fail!("c01:accepted-bad-track", "write_sample with an unknown track id returned Ok ({} tracks)", run.tracks_added);
    }
    let (rejected_valid, had_rejected_track) = (v.rejected_valid, v.had_rejected_track);
    if v.accepted_invalid {
        // the muxer accepted a configuration this harness expected it to reject: ids no longer line
        // up with the generated history; nothing in the property forbids accepting it
        ctx.count("hist:muxer-accepted-a-config-expected-to-be-rejected(skipped)");
        return Ok(());
    }
    if rejected_valid {
        ctx.count("hist:muxer-rejected-a-valid-call(outside-property)");
        return Ok(());
    }
    let chunk_counts = check_readback(case, &run, &bytes)?;
    let cls = classify(ctx, case, &run, &chunk_counts);
    if cls.nontrivial {
        ctx.nontrivial(fingerprint(case));
        ctx.sample("nontrivial", case);
    } else {
        ctx.sample("trivial", case);
    }
    // rejected calls leave no trace
    if had_rejected_track {
        ctx.count("hist:rejected-add_track");
    }
    if had_rejected_track || case.ops.iter().any(|o| o.track == 0 || (o.track as usize) > run.tracks_added) {
        let mut clean = case.clone();
        clean.tracks.retain(mux::expect_accept);
        clean.ops.retain(|o| o.track >= 1 && (o.track as usize) <= run.tracks_added);
        // sample payload patterns are keyed by per-track index of *accepted* samples, so unchanged
        let (run2, bytes2) = mux::run_mux_vec(&clean);
        if let Some(f) = mux::first_panic(&run2) {
            return Err(f);
        }
        ensure!(bytes2 == bytes, "c01:rejected-call-left-trace", "output differs from the same history without the rejected calls ({} vs {} bytes)", bytes.len(), bytes2.len());
    }
    Ok(())
}

fn enum_tracks() -> Vec<MTrack> {
    vec![
        MTrack { kind: MKind::Avc { width: 16, height: 16, sps: vec![0x67, 0x42, 0xc0, 0x1e], pps: vec![0x68, 0xce] }, timescale: 2, language: "und".into(), preset: false, ttype: 0 },
        MTrack { kind: MKind::Aac { profile: 2, freq_index: 3, chan: 2, bitrate: 0 }, timescale: 2, language: "eng".into(), preset: false, ttype: 0 },
    ]
}

pub fn run(ctx: &mut Ctx) {
    run_histories(ctx, oracle);
}

pub fn run_histories(ctx: &mut Ctx, oracle: fn(&mut Ctx, &MuxCase) -> Check) {
    ctx.stage("enum");
    let maxlen = ctx.pick(3usize, 4usize);
    // alphabet: track{1,2} x size{0,3} x dur{0,1,2} x cts{0,-1} x sync{f,t} = 48
    let mut alphabet: Vec<MOp> = Vec::new();
    for track in [1u32, 2] {
        for size in [0u32, 3] {
            for dur in [0u32, 1, 2] {
                for cts in [0i32, -1] {
                    for sync in [false, true] {
                        alphabet.push(MOp { track, size, dur, cts, sync });
                    }
                }
            }
        }
    }
    let a = alphabet.len() as u64;
    let mut idx: u64 = 0;
    for len in 0..=maxlen {
        let total = a.pow(len as u32);
        for code in 0..total {
            let my = idx;
            idx += 1;
            if !ctx.enter(my) {
                continue;
            }
            let mut ops = Vec::with_capacity(len);
            let mut c = code;
            for _ in 0..len {
                ops.push(alphabet[(c % a) as usize].clone());
                c /= a;
            }
            let case = MuxCase { major: *b"isom", minor: 512, compat: vec![*b"isom"], timescale: 3, tracks: enum_tracks(), ops, sink: if my % 11 == 4 { 1 + (my % 9) as u32 } else if my % 13 == 5 { (7 + (my % 400) as u32) << 16 } else { 0 } };
            let res = oracle(ctx, &case);
            ctx.judge(&case, res);
        }
    }
    ctx.extra.insert("enum_max_ops".into(), serde_json::json!(maxlen));
    ctx.extra.insert("enum_histories".into(), serde_json::json!(idx));
    ctx.stage("random");
    let cases = ctx.pick(400_000u32, 3_000_000u32) / ctx.nshards;
    let maxops = ctx.pick(60usize, 400usize);
    ctx.run_prop(mux::mux_history(5, maxops, 0.06), cases, |ctx, c| oracle(ctx, c));
}

pub fn replay(ctx: &mut Ctx, _stage: &str, case: &Value) -> Check {
    let c: MuxCase = serde_json::from_value(case.clone()).map_err(|e| Failure::new("replay:bad-case", e.to_string()))?;
    oracle(ctx, &c)
}
