//! C04 — box encode/decode are mutually inverse and size-exact.
use super::PropMeta;
use crate::boxes::{self, Spec, KINDS};
use crate::engine::{Check, Ctx, Failure};
use crate::libbox::{self, Converse, Forward};
use crate::refmp4::Node;
use proptest::prelude::*;
use serde::{Deserialize, Serialize};
use serde_json::Value;

pub const META: PropMeta = PropMeta {
    level: "exploration",
    rule: "for each of the 46 box kinds in mp4box/ (leaf boxes, descriptors and every container) a proptest strategy draws a value inside the wire-format domain (DESIGN Appendix A: version 0/1, every subset of the flag bits that gate optional fields, optional children present/absent, list lengths 0..L, field values within wire width and mostly non-zero/distinct). One case in five encodes into a legal sink that accepts at most 1..13 bytes per write call. Strings include non-ASCII UTF-8, 60..300 character strings and counted-string lookalikes. Forward: write_box returns Ok(n), n == box_size() == bytes written, header = (n, own four-character code from an independent table), and decoding - alone, followed by two sibling boxes, followed by garbage - yields an equal value and leaves the stream exactly at n. Converse: byte-mutated encodings (1..3 payload bytes replaced, size kept) and reference encodings (compact, 64-bit header, spare bytes): if decode(b)=Ok(v1) and encode(v1)=Ok(b2) then decode(b2)=Ok(v2), v2==v1, position exact, encode(v2)==b2 (ilst with >= 2 items: compared by value, item order is a HashMap's). Non-trivial = the shape has an optional part present / a non-empty list / version 1 (see Spec::nontrivial_shape); distinct = hash of (kind, value). The class histogram lists every (kind, shape) reached.",
    assumptions: &["'representable' is defined per box in DESIGN Appendix A; dinf/dref/url values can only be obtained by decoding (private field), so their forward direction starts from the reference encoding"],
};

#[derive(Clone, Debug, Serialize, Deserialize)]
pub struct Case {
    pub spec: Spec,
    /// byte substitutions applied to the reference encoding for the converse direction: (position fraction, value)
    pub muts: Vec<(u16, u8)>,
    pub mode: u8, // 0 forward, 1 converse-mutated, 2 converse-layouts
}

pub fn tails() -> Vec<Vec<u8>> {
    let free = Node::leaf("free", vec![1, 2, 3, 4]).render();
    let mut two = free.clone();
    two.extend(Node::leaf("stts", crate::refmp4::enc_stts(0, 0, &[(1, 2)])).render());
    vec![vec![], two, vec![0xde, 0xad, 0xbe, 0xef, 0xfe, 0xed, 0xfa, 0xce, 0x00, 0x01, 0x02, 0x03, 0x04]]
}

pub fn oracle(ctx: &mut Ctx, c: &Case) -> Check {
    // one case in five encodes into a sink that takes at most 1..=13 bytes per write call
    // (a legal std::io::Write); which ones is a function of the case alone
    let h = crate::engine::fp_of(&c.spec) ^ ((c.mode as u64) << 56);
    let lim = if h % 5 == 0 { 1 + ((h >> 8) % 13) as usize } else { 0 };
    libbox::ENC_SINK_LIMIT.with(|l| l.set(lim));
    if lim != 0 {
        ctx.count("sink:short-writes");
    }
    let r = oracle_inner(ctx, c);
    libbox::ENC_SINK_LIMIT.with(|l| l.set(0));
    r
}

fn oracle_inner(ctx: &mut Ctx, c: &Case) -> Check {
    let kind = c.spec.kind();
    let node = c.spec.node();
    let reference = node.render();
    let shape = c.spec.shape();
    ctx.count(&format!("{}[{}]", kind, shape));
    if c.spec.nontrivial_shape() {
        ctx.nontrivial(crate::engine::fp_of(&c.spec) ^ c.mode as u64);
        ctx.sample(&format!("{}:{}", ["forward", "converse-mutated", "converse-layout"][c.mode as usize % 3], kind), &c.spec);
    }
    match c.mode {
        0 => {
            let t = tails();
            let mut f = Forward { kind, fourcc: c.spec.fourcc(), tails: &t };
            match libbox::with_lib(&c.spec, &mut f) {
                Some(r) => r,
                None => {
                    // dinf with non-default fields: obtain the value by decoding the reference bytes
                    ctx.exclude("dinf value not constructible from outside the crate (forward check starts from decoded reference bytes)");
                    let w = libbox::dinf_witness();
                    let v = match libbox::decode(&w, &reference, kind)? {
                        Ok((v, _)) => v,
                        Err(e) => return Err(Failure::new("c04:decode-error:dinf", format!("reference dinf rejected: {}", e))),
                    };
                    use libbox::Visitor;
                    f.visit(&v)
                }
            }
        }
        1 => {
            // mutate payload bytes (keep the 8 header bytes)
            let mut b = reference.clone();
            if b.len() > 8 {
                for (pf, val) in &c.muts {
                    let pos = 8 + ((*pf as usize * (b.len() - 8)) >> 16);
                    b[pos] = *val;
                }
            }
            let mut cv = Converse { kind, bytes: &b, compare_bytes: !libbox::has_multi_ilst(&c.spec), accepted: false, reencoded: false };
            let r = match libbox::with_lib(&c.spec, &mut cv) {
                Some(r) => r,
                None => {
                    use libbox::Visitor;
                    cv.visit(&libbox::dinf_witness())
                }
            };
            if cv.accepted {
                ctx.count("converse:mutated-bytes-accepted-by-decoder");
            }
            if cv.reencoded {
                ctx.count("converse:re-encoding-succeeded");
            }
            r
        }
        _ => {
            let mut n = node.clone();
            let which = c.muts.first().map(|m| m.1 % 3).unwrap_or(0);
            if which >= 1 {
                n.large = true;
            }
            if which == 2 && crate::props::c12::SPARE_KINDS.contains(&kind) {
                n.spare = vec![0xC1, 0xC2, 0xC3];
            }
            let b = n.render();
            let mut cv = Converse { kind, bytes: &b, compare_bytes: !libbox::has_multi_ilst(&c.spec), accepted: false, reencoded: false };
            let r = match libbox::with_lib(&c.spec, &mut cv) {
                Some(r) => r,
                None => {
                    use libbox::Visitor;
                    cv.visit(&libbox::dinf_witness())
                }
            };
            if cv.accepted {
                ctx.count("converse:reference-layout-accepted-by-decoder");
            }
            r
        }
    }
}

pub fn run(ctx: &mut Ctx) {
    let (k_fwd, k_conv, maxlen) = ctx.pick((800u32, 600u32, 2usize), (12000u32, 8000u32, 3usize));
    for kind in KINDS {
        ctx.stage(&format!("forward:{}", kind));
        let s = boxes::strategy(kind, maxlen).prop_map(|spec| Case { spec, muts: vec![], mode: 0 });
        ctx.run_prop(s, (k_fwd / ctx.nshards).max(8), |ctx, c| oracle(ctx, c));
        ctx.stage(&format!("converse-mutated:{}", kind));
        let s = (boxes::strategy(kind, maxlen), prop::collection::vec((any::<u16>(), prop_oneof![Just(0u8), Just(1u8), Just(0xffu8), Just(0x7fu8), Just(0x80u8), any::<u8>()]), 1..4)).prop_map(|(spec, muts)| Case { spec, muts, mode: 1 });
        ctx.run_prop(s, (k_conv / ctx.nshards).max(8), |ctx, c| oracle(ctx, c));
        ctx.stage(&format!("converse-layout:{}", kind));
        let s = (boxes::strategy(kind, maxlen), any::<u8>()).prop_map(|(spec, w)| Case { spec, muts: vec![(0, w)], mode: 2 });
        ctx.run_prop(s, (k_conv / 3 / ctx.nshards).max(6), |ctx, c| oracle(ctx, c));
    }
    ctx.extra.insert("box_kinds".into(), serde_json::json!(KINDS.len()));
    let skipped = libbox::SLOW_REENCODE_SKIPPED.with(|c| c.get());
    if skipped > 0 {
        *ctx.excluded.entry("converse: trun without per-sample fields and sample_count > 2^20 (the encoder iterates sample_count times; write-side CPU time is outside the listed properties)".to_string()).or_insert(0) += skipped;
    }
}

pub fn replay(ctx: &mut Ctx, stage: &str, case: &Value) -> Check {
    if stage == "fuzz" {
        // libFuzzer artifact of the box_fixpoint target: first byte selects the kind
        let data = crate::engine::unhex(case.get("hex").and_then(|h| h.as_str()).unwrap_or(""));
        if data.len() < 9 {
            return Ok(());
        }
        let declared = u32::from_be_bytes([data[1], data[2], data[3], data[4]]) as usize;
        if declared == 1 || declared > data.len() - 1 {
            return Ok(());
        }
        let mut runner = crate::gen::fixed_runner(7);
        let specs: Vec<Spec> = KINDS.iter().map(|k| crate::gen::draw(&boxes::strategy(k, 1), &mut runner)).collect();
        let spec = &specs[data[0] as usize % specs.len()];
        let mut cv = Converse { kind: spec.kind(), bytes: &data[1..], compare_bytes: false, accepted: false, reencoded: false };
        return match libbox::with_lib(spec, &mut cv) {
            Some(r) => r,
            None => {
                use libbox::Visitor;
                cv.visit(&libbox::dinf_witness())
            }
        };
    }
    let c: Case = serde_json::from_value(case.clone()).map_err(|e| Failure::new("replay:bad-case", e.to_string()))?;
    oracle(ctx, &c)
}
