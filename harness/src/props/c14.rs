//! C14 — track and movie configuration survives mux -> demux.
use super::PropMeta;
use crate::engine::{guarded, Check, Ctx, Failure, Fnv};
use crate::mux::{self, CallOutcome, MKind, MTrack, MuxCase};
use crate::{ensure, fail};
use serde_json::Value;

pub const META: PropMeta = PropMeta {
    level: "exploration",
    rule: "Mp4Config x TrackConfig values in their documented domains (any brands/minor version, timescales >= 1, any u16 dimensions, SPS >= 4 bytes / any PPS, every AudioObjectType x SampleFreqIndex x ChannelConfig - the full 42x13x7 product is enumerated -, any bitrate, any three lowercase letters, a track_type chosen independently of the media configuration) x short generated sample histories, with configurations add_track must refuse interleaved (the accepted tracks must read back as ids 1..k); after mux -> demux every accessor is compared with the configuration (independent AVC profile table, exact integer arithmetic for the one-tick duration tolerance). Non-trivial = the configuration differs from every Default/From preset in >= 2 fields. Distinct = hash of the configuration + history.",
    assumptions: &["AVC profile table written from ITU-T H.264 Annex A (66 +/- constraint_set1, 77, 88, 100)", "durations are kept below 2^50 movie ticks so that the reader's millisecond/microsecond conversion itself cannot overflow (that overflow is C06's subject)"],
};

fn expect_profile(p: u8, compat: u8) -> Option<&'static str> {
    match p {
        66 => Some(if compat & 0x40 != 0 { "Constrained Baseline" } else { "Baseline" }),
        77 => Some("Main"),
        88 => Some("Extended"),
        100 => Some("High"),
        _ => None,
    }
}

fn fingerprint(c: &MuxCase) -> u64 {
    let mut h = Fnv::new();
    h.write(serde_json::to_string(&c.tracks).unwrap_or_default().as_bytes());
    h.write(&c.major);
    h.write_u64(c.minor as u64 | (c.timescale as u64) << 32);
    h.write_u64(c.ops.len() as u64);
    h.finish()
}

fn nondefault_fields(c: &MuxCase) -> usize {
    let mut n = 0;
    for t in &c.tracks {
        if t.preset {
            continue;
        }
        if t.timescale != 1000 {
            n += 1;
        }
        if t.language != "und" {
            n += 1;
        }
        match &t.kind {
            MKind::Avc { width, height, .. } | MKind::Hevc { width, height } | MKind::Vp9 { width, height } => {
                if *width != 0 {
                    n += 1;
                }
                if *height != 0 {
                    n += 1;
                }
            }
            MKind::Aac { profile, freq_index, chan, bitrate } => {
                n += (*profile != 2) as usize + (*freq_index != 3) as usize + (*chan != 2) as usize + (*bitrate != 0) as usize;
            }
            MKind::Ttxt => {}
        }
    }
    n
}

pub fn oracle(ctx: &mut Ctx, case: &MuxCase) -> Check {
    let (run, bytes) = mux::run_mux_vec(case);
    if let Some(f) = mux::first_panic(&run) {
        return Err(f);
    }
    // calls the documented domain says are accepted must be accepted (else the history is outside
    // the property); configurations the muxer must refuse (zero timescale, parameter sets that do
    // not fit) may be interleaved anywhere and must leave no trace: the accepted tracks keep the
    // ids 1..k in the order they were added
    let v = mux::judge_calls(case, &run);
    if v.rejected_valid || v.accepted_invalid || run.calls.iter().any(|(n, o)| matches!(o, CallOutcome::Err(_)) && n != "write_sample" && n != "add_track") {
        ctx.count("muxer-rejected-config(outside-property)");
        return Ok(());
    }
    if v.had_rejected_track {
        ctx.count("history:with-refused-add_track-calls");
    }
    let accepted: Vec<&mux::MTrack> = case.tracks.iter().filter(|t| mux::track_config(t).is_some() && mux::expect_accept(t)).collect();
    let reader = crate::oracle::open(&bytes)?;
    // file level
    ensure!(reader.major_brand().value == case.major, "c14:major_brand", "major brand {:?} != {:?}", reader.major_brand().value, case.major);
    ensure!(reader.minor_version() == case.minor, "c14:minor_version", "minor version {} != {}", reader.minor_version(), case.minor);
    let cb: Vec<[u8; 4]> = reader.compatible_brands().iter().map(|b| b.value).collect();
    ensure!(cb == case.compat, "c14:compatible_brands", "compatible brands differ");
    ensure!(reader.timescale() == case.timescale, "c14:movie-timescale", "movie timescale {} != {}", reader.timescale(), case.timescale);
    ensure!(reader.tracks().len() == accepted.len(), "c14:track-count", "{} tracks read, {} configured", reader.tracks().len(), accepted.len());
    let mut max_exact_ms_num: (u128, u128) = (0, 1); // max over tracks of sum_dur*1000/ts as a fraction
    for (i, t) in accepted.iter().enumerate() {
        let id = i as u32 + 1;
        let Some(tr) = reader.tracks().get(&id) else { fail!("c14:missing-track", "track {} missing", id) };
        let (ts, lang) = if t.preset { (1000u32, "und".to_string()) } else { (t.timescale, t.language.clone()) };
        ensure!(tr.track_id() == id, "c14:track_id", "track_id {} != {}", tr.track_id(), id);
        ensure!(tr.timescale() == ts, "c14:timescale", "track {} timescale {} != {}", id, tr.timescale(), ts);
        ensure!(tr.language() == lang, "c14:language", "track {} language {:?} != {:?}", id, tr.language(), lang);
        let (want_type, want_media, want_box): (&str, &str, &[u8; 4]) = match &t.kind {
            MKind::Avc { .. } => ("Video", "h264", b"avc1"),
            MKind::Hevc { .. } => ("Video", "h265", b"hev1"),
            MKind::Vp9 { .. } => ("Video", "vp9", b"vp09"),
            MKind::Aac { .. } => ("Audio", "aac", b"mp4a"),
            MKind::Ttxt => ("Subtitle", "ttxt", b"tx3g"),
        };
        let want_type = match t.ttype {
            1 => "Video",
            2 => "Audio",
            3 => "Subtitle",
            _ => want_type,
        };
        if t.ttype != 0 {
            ctx.count("track:track_type-chosen-independently-of-the-codec");
        }
        match guarded("track_type", || tr.track_type())? {
            Ok(x) => ensure!(x.to_string() == want_type, "c14:track_type", "track {} type {} != {}", id, x, want_type),
            Err(e) => fail!("c14:track_type", "track {} track_type error {}", id, e),
        }
        match guarded("media_type", || tr.media_type())? {
            Ok(x) => ensure!(x.to_string() == want_media, "c14:media_type", "track {} media type {} != {}", id, x, want_media),
            Err(e) => fail!("c14:media_type", "track {} media_type error {}", id, e),
        }
        match guarded("box_type", || tr.box_type())? {
            Ok(x) => ensure!(&x.value == want_box, "c14:box_type", "track {} box type {} != {}", id, x, String::from_utf8_lossy(want_box)),
            Err(e) => fail!("c14:box_type", "track {} box_type error {}", id, e),
        }
        match &t.kind {
            MKind::Avc { width, height, sps, pps } => {
                ensure!(tr.width() == *width && tr.height() == *height, "c14:dimensions", "track {} {}x{} != {}x{}", id, tr.width(), tr.height(), width, height);
                match tr.sequence_parameter_set() {
                    Ok(x) => ensure!(x == &sps[..], "c14:sps", "track {} SPS differs", id),
                    Err(e) => fail!("c14:sps", "track {} SPS error {}", id, e),
                }
                match tr.picture_parameter_set() {
                    Ok(x) => ensure!(x == &pps[..], "c14:pps", "track {} PPS differs", id),
                    Err(e) => fail!("c14:pps", "track {} PPS error {}", id, e),
                }
                let avcc = &tr.trak.mdia.minf.stbl.stsd.avc1.as_ref().unwrap().avcc;
                ensure!(avcc.avc_profile_indication == sps[1] && avcc.profile_compatibility == sps[2] && avcc.avc_level_indication == sps[3], "c14:avcc-bytes", "track {} avcC profile/compat/level bytes != SPS[1..4]", id);
                let got = guarded("video_profile", || tr.video_profile())?;
                match (got, expect_profile(sps[1], sps[2])) {
                    (Ok(p), Some(w)) => ensure!(p.to_string() == w, "c14:video_profile", "track {} profile_idc {} compat {:#04x}: video_profile {} != {}", id, sps[1], sps[2], p, w),
                    (Err(_), None) => {}
                    (Ok(p), None) => fail!("c14:video_profile", "track {} profile_idc {} reported as {}", id, sps[1], p),
                    (Err(e), Some(w)) => fail!("c14:video_profile", "track {} profile {} expected, got error {}", id, w, e),
                }
            }
            MKind::Hevc { width, height } | MKind::Vp9 { width, height } => {
                ensure!(tr.width() == *width && tr.height() == *height, "c14:dimensions", "track {} {}x{} != {}x{}", id, tr.width(), tr.height(), width, height);
            }
            MKind::Aac { profile, freq_index, chan, bitrate } => {
                // object types >= 32 need the 31-escape of AudioSpecificConfig: own signature suffix
                let esc = if *profile >= 32 { ":escaped-aot" } else { "" };
                match guarded("audio_profile", || tr.audio_profile())? {
                    Ok(p) => ensure!(p as u8 == *profile, format!("c14:audio_profile{}", esc), "track {} audio object type {} != {}", id, p as u8, profile),
                    Err(e) => fail!(format!("c14:audio_profile{}", esc), "track {} object type {}: {}", id, profile, e),
                }
                match guarded("sample_freq_index", || tr.sample_freq_index())? {
                    Ok(p) => ensure!(p as u8 == *freq_index, format!("c14:freq_index{}", esc), "track {} (object type {}) freq index {} != {}", id, profile, p as u8, freq_index),
                    Err(e) => fail!(format!("c14:freq_index{}", esc), "track {} (object type {}) freq index {}: {}", id, profile, freq_index, e),
                }
                match guarded("channel_config", || tr.channel_config())? {
                    Ok(p) => ensure!(p as u8 == *chan, format!("c14:channel_config{}", esc), "track {} (object type {}) channel config {} != {}", id, profile, p as u8, chan),
                    Err(e) => fail!(format!("c14:channel_config{}", esc), "track {} (object type {}) channel config {}: {}", id, profile, chan, e),
                }
                let b = guarded("bitrate", || tr.bitrate())?;
                ensure!(b == *bitrate, "c14:bitrate", "track {} bitrate {} != {}", id, b, bitrate);
            }
            MKind::Ttxt => {}
        }
        // track duration in microseconds: |reported - sum*1e6/ts| <= 1
        let sum: u128 = run.model[i].iter().map(|s| s.dur as u128).sum();
        let d = guarded("Mp4Track::duration", || tr.duration())?;
        let got_us = d.as_micros();
        let num = sum * 1_000_000;
        let diff = if got_us * ts as u128 > num { got_us * ts as u128 - num } else { num - got_us * ts as u128 };
        ensure!(diff <= ts as u128, "c14:track-duration", "track {} duration {} us but {} ticks at {} Hz", id, got_us, sum, ts);
        // max of sum*1000/ts
        if sum * 1000 * max_exact_ms_num.1 > max_exact_ms_num.0 * ts as u128 {
            max_exact_ms_num = (sum * 1000, ts as u128);
        }
    }
    // movie duration in ms: stored in movie ticks (floor, <= 1 tick low) then floor to ms
    if case.timescale > 0 {
        let d = guarded("Mp4Reader::duration", || reader.duration())?;
        let got_ms = d.as_millis();
        let (num, den) = max_exact_ms_num;
        // |got - num/den| <= 1 + 1000/movie_ts   <=>  |got*den*mts - num*mts| <= den*mts + 1000*den
        let mts = case.timescale as u128;
        let a = got_ms * den * mts;
        let b = num * mts;
        let diff = if a > b { a - b } else { b - a };
        ensure!(diff <= den * mts + 1000 * den, "c14:movie-duration", "movie duration {} ms but longest track lasts {}/{} ms (movie timescale {})", got_ms, num, den, mts);
    }
    let nd = nondefault_fields(case);
    if nd >= 2 {
        ctx.nontrivial(fingerprint(case));
        ctx.sample("nontrivial", case);
    } else {
        ctx.sample("near-default", case);
    }
    for t in &case.tracks {
        ctx.count(match &t.kind {
            MKind::Avc { .. } => "kind:avc",
            MKind::Hevc { .. } => "kind:hevc",
            MKind::Vp9 { .. } => "kind:vp9",
            MKind::Aac { .. } => "kind:aac",
            MKind::Ttxt => "kind:ttxt",
        });
        if t.preset {
            ctx.count("track:from-preset");
        }
    }
    Ok(())
}

pub fn run(ctx: &mut Ctx) {
    // full product of the three AAC enums
    ctx.stage("aac-product");
    let mut idx = 0u64;
    for p in mux::VALID_AOT {
        for f in 0u8..=12 {
            for c in 1u8..=7 {
                let my = idx;
                idx += 1;
                if !ctx.enter(my) {
                    continue;
                }
                let bitrate = (my as u32).wrapping_mul(2654435761);
                let case = MuxCase {
                    major: *b"isom",
                    minor: my as u32,
                    compat: vec![*b"mp42"],
                    timescale: 1000 + my as u32,
                    tracks: vec![MTrack { kind: MKind::Aac { profile: p, freq_index: f, chan: c, bitrate }, timescale: 44100 - (my as u32 % 7), language: "eng".into(), preset: false, ttype: 0 }],
                    ops: vec![mux::MOp { track: 1, size: 5, dur: 1024, cts: 0, sync: true }, mux::MOp { track: 1, size: 6, dur: 1024, cts: 0, sync: true }],
                    sink: 0,
                };
                let res = oracle(ctx, &case);
                ctx.judge(&case, res);
            }
        }
    }
    ctx.extra.insert("aac_product_cases".into(), serde_json::json!(idx));
    // AVC profile bytes: every (profile_idc in table +- 1, compat) pair through the track accessor
    ctx.stage("avc-profile-bytes");
    let mut idx = 0u64;
    for p in [0u8, 65, 66, 67, 76, 77, 78, 87, 88, 89, 99, 100, 101, 110, 122, 244, 255] {
        for compat in 0u16..=255 {
            let my = idx;
            idx += 1;
            if !ctx.enter(my) {
                continue;
            }
            let case = MuxCase {
                major: *b"avc1",
                minor: 0,
                compat: vec![],
                timescale: 600,
                tracks: vec![MTrack { kind: MKind::Avc { width: 1920, height: 1080, sps: vec![0x67, p, compat as u8, 0x28, 0xaa], pps: vec![0x68, 1] }, timescale: 90000, language: "fra".into(), preset: false, ttype: 0 }],
                ops: vec![mux::MOp { track: 1, size: 9, dur: 3000, cts: 0, sync: true }],
                sink: 0,
            };
            let res = oracle(ctx, &case);
            ctx.judge(&case, res);
        }
    }
    ctx.stage("random");
    let cases = ctx.pick(300_000u32, 2_000_000u32) / ctx.nshards;
    ctx.run_prop(mux::mux_history_bits(4, 12, 0.04, 50), cases, |ctx, c| oracle(ctx, c));
}

pub fn replay(ctx: &mut Ctx, _stage: &str, case: &Value) -> Check {
    let c: MuxCase = serde_json::from_value(case.clone()).map_err(|e| Failure::new("replay:bad-case", e.to_string()))?;
    oracle(ctx, &c)
}
