//! C11 — truncated files never yield wrong data (every cut position).
use super::PropMeta;
use crate::adv;
use crate::driver::{OPS_CONST, OPS_PER_BYTE};
use crate::engine::{guard, Check, Ctx, Failure};
use crate::gen;
use crate::io::CountingStream;
use crate::refmp4::movie::{build, Movie, Xform};
use crate::refmp4::parse;
use crate::{ensure, fail};
use mp4::Mp4Reader;
use proptest::test_runner::{Config, RngAlgorithm, TestRng, TestRunner};
use serde::{Deserialize, Serialize};
use serde_json::Value;
use std::io::Cursor;

pub const META: PropMeta = PropMeta {
    level: "fault_enumeration",
    rule: "crash points = every cut position 0..len of: reference-encoded movies in every layout (moov first, mdat first, several tracks, fragmented single stream, with iTunes metadata), movie-header-last files in which every leaf box of moov in turn is the last box of the file (cuts inside that box), files with samples above 64 KiB (cuts around sample boundaries and 64 KiB marks), seed-dependent generated movies, a media segment opened against its intact init segment, and the canned minimal.mp4 / minimal_init.mp4 / minimal_fragment.m4s (thorough: more and larger files). For each prefix, given with its own length: read_header (or read_fragment_header) returns Err or Ok; if Ok, every (track, sample id) of the complete file is read: Err is fine, Ok(None) only beyond the truncated reader's own sample count, Ok(sample) must equal the complete file's sample in bytes, start time, duration and rendering offset. No panic, no exhaustion of the stream-operation budget (hang). Sample payloads are non-zero patterns. Non-trivial = 0 < cut < len and the cut is not on a top-level box boundary. Distinct = (file, cut).",
    assumptions: &["baseline = what the library reads from the complete file (its correctness is C03/C09's subject)"],
};

#[derive(Clone, Debug, Serialize, Deserialize)]
pub struct Case {
    pub name: String,
    pub cut: usize,
    /// complete file (hex) and, for segment cases, the init segment
    pub full_hex: String,
    pub init_hex: Option<String>,
}

#[derive(Clone, Debug, PartialEq)]
struct Snap {
    bytes: Vec<u8>,
    start: u64,
    dur: u32,
    cts: i32,
}

type Rd = Mp4Reader<CountingStream<Cursor<Vec<u8>>>>;

fn open_any(bytes: &[u8], init: Option<&[u8]>) -> Result<Result<(Rd, std::rc::Rc<crate::io::Stats>), String>, Failure> {
    let n = bytes.len() as u64;
    let budget = OPS_PER_BYTE * n + OPS_CONST;
    let (s, st) = CountingStream::new(Cursor::new(bytes.to_vec()), budget);
    let st2 = st.clone();
    let r = match init {
        None => guard(move || Mp4Reader::read_header(s, n)).map_err(|p| p.failure("read_header"))?,
        Some(i) => {
            let il = i.len() as u64;
            let ir = Mp4Reader::read_header(Cursor::new(i.to_vec()), il).map_err(|e| Failure::new("c11:init-does-not-open", e.to_string()))?;
            guard(move || ir.read_fragment_header(s, n)).map_err(|p| p.failure("read_fragment_header"))?
        }
    };
    if st2.budget_hit.get() {
        fail!("c11:hang@open", "opening a {}-byte prefix exhausted the budget of {} stream operations", n, budget);
    }
    Ok(r.map(|r| (r, st)).map_err(|e| e.to_string()))
}

fn baseline(full: &[u8], init: Option<&[u8]>) -> Result<Vec<(u32, Vec<Option<Snap>>)>, Failure> {
    let (mut r, _st) = open_any(full, init)?.map_err(|e| Failure::new("c11:complete-file-does-not-open", e))?;
    let mut ids: Vec<u32> = r.tracks().keys().copied().collect();
    ids.sort();
    let mut out = Vec::new();
    for id in ids {
        let n = r.sample_count(id).unwrap_or(0).min(4096);
        let mut v = Vec::new();
        for k in 1..=n {
            match guard(|| r.read_sample(id, k)) {
                Ok(Ok(Some(s))) => v.push(Some(Snap { bytes: s.bytes.to_vec(), start: s.start_time, dur: s.duration, cts: s.rendering_offset })),
                _ => v.push(None),
            }
        }
        out.push((id, v));
    }
    Ok(out)
}

pub fn check_cut(full: &[u8], init: Option<&[u8]>, cut: usize, base: &[(u32, Vec<Option<Snap>>)]) -> Check {
    let prefix = &full[..cut];
    let (mut r, st) = match open_any(prefix, init)? {
        Ok(x) => x,
        Err(_) => return Ok(()), // opening failed with an error: allowed
    };
    for (id, samples) in base {
        let own = guard(|| r.sample_count(*id)).map_err(|p| p.failure("sample_count"))?.unwrap_or(0);
        for (i, want) in samples.iter().enumerate() {
            let k = i as u32 + 1;
            st.reset();
            st.budget_ops.set(256);
            let got = guard(|| r.read_sample(*id, k)).map_err(|p| p.failure("read_sample"))?;
            ensure!(!st.budget_hit.get(), "c11:hang@read_sample", "read_sample({}, {}) on a {}-byte prefix exhausted its stream-operation budget", id, k, cut);
            match got {
                Err(_) => {}
                Ok(None) => ensure!(k > own, "c11:none-within-count", "prefix of {} bytes: track {} reports {} samples but read_sample({}) returned None", cut, id, own, k),
                Ok(Some(s)) => {
                    let Some(w) = want else { fail!("c11:sample-only-in-prefix", "prefix of {} bytes: track {} sample {} readable in the prefix but not in the complete file", cut, id, k) };
                    ensure!(s.bytes[..] == w.bytes[..], "c11:bytes", "prefix of {} bytes: track {} sample {}: {} bytes returned that differ from the complete file's {} bytes", cut, id, k, s.bytes.len(), w.bytes.len());
                    ensure!(s.start_time == w.start && s.duration == w.dur && s.rendering_offset == w.cts, "c11:timing", "prefix of {} bytes: track {} sample {}: timing ({}, {}, {}) differs from the complete file's ({}, {}, {})", cut, id, k, s.start_time, s.duration, s.rendering_offset, w.start, w.dur, w.cts);
                }
            }
        }
    }
    Ok(())
}

struct File {
    name: String,
    full: Vec<u8>,
    init: Option<Vec<u8>>,
    /// only cuts at or after this position are explored (0 = all)
    from: usize,
}

/// Variants of a movie-header-last file in which every leaf box of the moov subtree in turn is the
/// very last box of the file (child order is free in moov, trak, mdia, minf, stbl, udta, ilst and
/// ISO-style meta): a truncation then falls inside that box, whichever table it is.
fn tail_variants(name: &str, m: &Movie) -> Vec<File> {
    use crate::refmp4::{cc, Node, Part};
    const SWAP_PARENTS: [&str; 7] = ["moov", "trak", "mdia", "minf", "stbl", "udta", "ilst"];
    let b = build(m);
    let mi = match b.tree.iter().position(|n| n.typ == cc("moov")) {
        Some(i) if i + 1 == b.tree.len() => i,
        _ => return vec![],
    };
    fn rec(n: &Node, path: &mut Vec<usize>, chain: &mut Vec<Xform>, label: &mut Vec<String>, out: &mut Vec<(String, Vec<Xform>)>) {
        let kids: Vec<&Node> = n.children().collect();
        if kids.is_empty() {
            out.push((label.join("/"), chain.clone()));
            return;
        }
        let free = SWAP_PARENTS.iter().any(|t| n.typ == cc(t)) || (n.typ == cc("meta") && matches!(n.parts.first(), Some(Part::Raw(_))));
        let last = kids.len() - 1;
        for (i, k) in kids.iter().enumerate() {
            if !free && i != last {
                continue;
            }
            if i != last {
                chain.push(Xform::Swap { path: path.clone(), i, j: last });
            }
            path.push(i);
            label.push(format!("{}{}", String::from_utf8_lossy(&k.typ), i));
            rec(k, path, chain, label, out);
            label.pop();
            path.pop();
            if i != last {
                chain.pop();
            }
        }
    }
    let mut sites = Vec::new();
    rec(&b.tree[mi], &mut vec![mi], &mut Vec::new(), &mut Vec::new(), &mut sites);
    let mut out = Vec::new();
    for (label, chain) in sites {
        let mut v = m.clone();
        v.xforms.extend(chain);
        let vb = build(&v);
        // start of the last leaf box: walk down the last children
        let mut from = 0usize;
        let mut level = parse::walk_lenient(&vb.bytes);
        while let Some(lastb) = level.pop() {
            from = lastb.start;
            level = lastb.children;
        }
        out.push(File { name: format!("{}:tail={}", name, label), full: vb.bytes, init: None, from: from.saturating_sub(24) });
    }
    out
}

fn files(ctx: &Ctx) -> Vec<File> {
    let mut v = Vec::new();
    for i in 0..4 {
        v.push(File { name: format!("sink{}", i), full: build(&adv::kitchen_sink(i)).bytes, init: None, from: 0 });
    }
    for i in 0..2 {
        let b = build(&adv::kitchen_sink_frag(i));
        v.push(File { name: format!("sinkfrag{}", i), full: b.bytes.clone(), init: None, from: 0 });
        v.push(File { name: format!("segment{}", i), full: b.segment.clone(), init: Some(b.bytes[..b.init_len].to_vec()), from: 0 });
    }
    let mut seed = [0u8; 32];
    seed[..8].copy_from_slice(&ctx.seed.to_le_bytes());
    seed[8] = 0x11;
    let mut runner = TestRunner::new_with_rng(Config::default(), TestRng::from_seed(RngAlgorithm::ChaCha, &seed));
    let (ngen, maxlen) = ctx.pick((160usize, 6000usize), (400usize, 65536usize));
    let mut tries = 0;
    while v.len() < 8 + ngen && tries < ngen * 4 {
        tries += 1;
        let m = match tries % 3 {
            0 => gen::draw(&gen::table_movie(3, if ctx.quick() { 10 } else { 200 }), &mut runner),
            1 => gen::draw(&gen::frag_movie(3, 3, 4), &mut runner),
            _ => {
                let mut m = gen::draw(&gen::table_movie(2, 6), &mut runner);
                m.meta = Some(gen::draw(&gen::meta_strategy(), &mut runner).0);
                m
            }
        };
        let b = build(&m);
        if b.bytes.len() <= maxlen {
            if !m.frags.is_empty() && tries % 2 == 0 {
                v.push(File { name: format!("genseg{}", tries), full: b.segment.clone(), init: Some(b.bytes[..b.init_len].to_vec()), from: 0 });
            } else {
                v.push(File { name: format!("gen{}", tries), full: b.bytes, init: None, from: 0 });
            }
        }
    }
    // large samples (> 64 KiB): moov first, so that cuts inside the media data still open
    {
        let raw = |size: u32, cb: bool| gen::RawSample { size, dur: 10, cts: 0, sync: true, chunk_break: cb, stsc_break: false, stts_break: false, ctts_break: false };
        let opts = gen::TrackOpts { co64: false, fixed_stsz: false, uniform_size: None, uniform_dur: None, has_ctts: false, has_stss: false, sync_mode: 0 };
        let t = gen::assemble_track(1, crate::refmp4::movie::Codec::Hevc { width: 8, height: 8 }, 1000, *b"und", &[raw(100_000, true), raw(70_001, false), raw(65_537, true), raw(9, true)], &opts);
        let m = gen::movie_shell(vec![t]);
        v.push(File { name: "large-samples".into(), full: build(&m).bytes, init: None, from: 0 });
        // the same as fragments, as one stream: a cut moof/mdat pair at the end opens with the earlier fragments
        let mut fm = adv::kitchen_sink_frag(0);
        fm.frags[0].trafs.truncate(1);
        fm.frags[0].trafs[0].samples = vec![crate::refmp4::movie::Sample { size: 90_000, dur: 5, cts: 0, sync: true }, crate::refmp4::movie::Sample { size: 66_000, dur: 5, cts: 0, sync: true }];
        fm.frags.truncate(1);
        v.push(File { name: "large-fragment-samples".into(), full: build(&fm).bytes, init: None, from: 0 });
    }
    // fragmented, with no duration signalled at any level (trex default 0, no tfhd default, no
    // per-sample durations) but a media duration in mdhd; two tracks in separate moofs
    {
        let mut fm = adv::kitchen_sink_frag(1);
        fm.frag_mdhd_dur = 360;
        for t in fm.tracks.iter_mut() {
            t.trex_dur = 0;
        }
        for f in fm.frags.iter_mut() {
            for tr in f.trafs.iter_mut() {
                tr.tfhd_dur = None;
                tr.trun_dur = false;
            }
        }
        v.push(File { name: "sinkfrag-no-duration-signalling".into(), full: build(&fm).bytes, init: None, from: 0 });
    }
    // fragmented, as a live muxer writes it: per-sample durations with the last sample of every run
    // at duration 0 (not known yet), a decode time in every traf, a gap between the fragments
    for i in 0..2 {
        let mut fm = adv::kitchen_sink_frag(i);
        let mut acc = vec![0u64; fm.tracks.len()];
        for f in fm.frags.iter_mut() {
            for tr in f.trafs.iter_mut() {
                tr.trun_dur = true;
                if let Some(last) = tr.samples.last_mut() {
                    last.dur = 0;
                }
                let sum: u64 = tr.samples.iter().map(|s| s.dur as u64).sum();
                let a = &mut acc[tr.track % fm.tracks.len().max(1)];
                tr.tfdt = Some(((*a % 2) as u8, *a));
                *a += sum + 300;
            }
        }
        let b = build(&fm);
        v.push(File { name: format!("sinkfrag{}-last-duration-0", i), full: b.bytes.clone(), init: None, from: 0 });
        v.push(File { name: format!("segment{}-last-duration-0", i), full: b.segment.clone(), init: Some(b.bytes[..b.init_len].to_vec()), from: 0 });
    }
    // movie header last, each moov leaf box in turn as the last box of the file
    for i in 0..3 {
        let mut m = adv::kitchen_sink(i);
        m.mdat_first = true;
        v.extend(tail_variants(&format!("sink{}", i), &m));
    }
    v.push(File { name: "minimal.mp4".into(), full: adv::canned("minimal.mp4"), init: None, from: 0 });
    v.push(File { name: "minimal_init.mp4".into(), full: adv::canned("minimal_init.mp4"), init: None, from: 0 });
    v.push(File { name: "minimal_fragment.m4s".into(), full: adv::canned("minimal_fragment.m4s"), init: Some(adv::canned("minimal_init.mp4")), from: 0 });
    v.push(File { name: "extended_audio_object_type.mp4".into(), full: adv::canned("extended_audio_object_type.mp4"), init: None, from: 0 });
    v
}

pub fn run(ctx: &mut Ctx) {
    ctx.stage("cuts");
    let fs = files(ctx);
    let mut idx = 0u64;
    let mut names = Vec::new();
    for f in &fs {
        names.push(format!("{}({}B)", f.name, f.full.len()));
        let base = match baseline(&f.full, f.init.as_deref()) {
            Ok(b) => b,
            Err(e) => {
                // a complete file that does not open is not a C11 subject
                ctx.exclude(&format!("complete file does not open: {} ({})", f.name, e.sig));
                continue;
            }
        };
        let tops: Vec<usize> = parse::walk_lenient(&f.full).iter().map(|b| b.start).collect();
        let nsamples: usize = base.iter().map(|(_, v)| v.len()).sum();
        // small files: every cut; large files: every cut within 64 bytes of a box boundary or of a
        // sample boundary / 64 KiB mark inside a sample, plus a prime stride
        let large = f.full.len() > 20_000;
        let mut marks: Vec<usize> = Vec::new();
        if large {
            fn collect(b: &[parse::PBox], out: &mut Vec<usize>) {
                for x in b {
                    out.push(x.start);
                    out.push(x.end());
                    collect(&x.children, out);
                }
            }
            collect(&parse::walk_lenient(&f.full), &mut marks);
            if let Ok((mut r, _)) = open_any(&f.full, f.init.as_deref()).and_then(|x| x.map_err(|e| Failure::new("x", e))) {
                for (id, samples) in &base {
                    for k in 1..=samples.len() as u32 {
                        if let Ok(off) = r.sample_offset(*id, k) {
                            let size = samples[k as usize - 1].as_ref().map(|s| s.bytes.len()).unwrap_or(0);
                            marks.push(off as usize);
                            marks.push(off as usize + size);
                            let mut m = 65536;
                            while m < size {
                                marks.push(off as usize + m);
                                m += 65536;
                            }
                        }
                    }
                }
            }
            marks.sort();
            marks.dedup();
        }
        for cut in f.from..f.full.len() {
            if large && cut % 211 != 0 && !marks.iter().any(|m| (*m as i64 - cut as i64).abs() <= 64) {
                continue;
            }
            let my = idx;
            idx += 1;
            if !ctx.enter(my) {
                continue;
            }
            let case = Case { name: f.name.clone(), cut, full_hex: String::new(), init_hex: None };
            ctx.pre_case(&Case { name: f.name.clone(), cut, full_hex: crate::engine::hex(&f.full), init_hex: f.init.as_ref().map(|i| crate::engine::hex(i)) });
            let res = check_cut(&f.full, f.init.as_deref(), cut, &base);
            if cut > 0 && !tops.contains(&cut) {
                ctx.nontrivial(crate::engine::fnv64(format!("{}:{}", f.name, cut).as_bytes()));
                ctx.sample("cut-inside-a-box", &serde_json::json!({"file": f.name, "len": f.full.len(), "cut": cut, "samples_checked": nsamples}));
            }
            if res.is_err() {
                let full_case = Case { full_hex: crate::engine::hex(&f.full), init_hex: f.init.as_ref().map(|i| crate::engine::hex(i)), ..case };
                ctx.judge(&full_case, res);
            } else {
                ctx.judge(&case, res);
            }
        }
    }
    ctx.extra.insert("files".into(), serde_json::json!(names));
    ctx.extra.insert("cut_positions".into(), serde_json::json!(idx));
}

pub fn replay(_ctx: &mut Ctx, _stage: &str, case: &Value) -> Check {
    let c: Case = serde_json::from_value(case.clone()).map_err(|e| Failure::new("replay:bad-case", e.to_string()))?;
    let full = crate::engine::unhex(&c.full_hex);
    let init = c.init_hex.as_ref().map(|h| crate::engine::unhex(h));
    let base = baseline(&full, init.as_deref())?;
    check_cut(&full, init.as_deref(), c.cut.min(full.len()), &base)
}
