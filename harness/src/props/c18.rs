//! C18 — metadata accessors return the tags the file encodes.
use super::PropMeta;
use crate::engine::{guarded, Check, Ctx, Failure, Fnv};
use crate::gen::{self, MetaExpect};
use crate::oracle::open;
use crate::refmp4::movie::{build, Meta, Movie};
use crate::ensure;
use mp4::Metadata;
use proptest::prelude::*;
use serde::{Deserialize, Serialize};
use serde_json::Value;

pub const META: PropMeta = PropMeta {
    level: "exploration",
    rule: "movies with a udta/meta/ilst built by the independent reference encoder: every subset of {title, year, poster, summary} x text / 4-byte binary year x payload lengths {0, short, multi-byte UTF-8, long, 64 KiB} x 0..5 unknown items and unknown atoms inside items and udta x handler 'mdir' or other x ISO (FullBox) or QuickTime style meta x hdlr before/after ilst x meta without ilst x no udta at all, item order shuffled, every box of the udta subtree with compact or 64-bit header, optionally a decoy meta box directly in moov; every case is also read through a reader derived with read_fragment_header. Oracle: accessors equal the encoded values / None for absent; metamorphic: stripping every unknown item and atom leaves all four answers unchanged. Non-trivial = (>=1 known item together with >=1 unknown item) or an absence case (other handler, no ilst, no udta, item missing). Distinct = hash of the metadata description.",
    assumptions: &["a year item that is neither decimal text nor a 4-byte binary value (binary of another length, non-numeric text) does not encode a year in either of the two forms the statement names: absence is expected", "text payloads are valid UTF-8"],
};

#[derive(Clone, Debug, Serialize, Deserialize)]
pub struct Case {
    pub movie: Movie,
    pub title: Option<Vec<u8>>,
    pub summary: Option<Vec<u8>>,
    pub year: Option<u32>,
    pub poster: Option<Vec<u8>>,
}

fn answers(bytes: &[u8]) -> Result<(Option<String>, Option<u32>, Option<Vec<u8>>, Option<String>), Failure> {
    let r = open(bytes)?;
    let md = r.metadata();
    let t = guarded("metadata.title", || md.title().map(|c| c.into_owned()))?;
    let y = guarded("metadata.year", || md.year())?;
    let p = guarded("metadata.poster", || md.poster().map(|b| b.to_vec()))?;
    let s = guarded("metadata.summary", || md.summary().map(|c| c.into_owned()))?;
    Ok((t, y, p, s))
}

pub fn oracle(ctx: &mut Ctx, c: &Case) -> Check {
    let built = build(&c.movie);
    let (t, y, p, s) = answers(&built.bytes)?;
    let want_t = c.title.as_ref().map(|b| String::from_utf8(b.clone()).unwrap_or_default());
    let want_s = c.summary.as_ref().map(|b| String::from_utf8(b.clone()).unwrap_or_default());
    ensure!(t == want_t, "c18:title", "title {:?} != {:?}", t.as_ref().map(|x| x.chars().take(40).collect::<String>()), want_t.as_ref().map(|x| x.chars().take(40).collect::<String>()));
    ensure!(s == want_s, "c18:summary", "summary {:?} != {:?}", s.as_ref().map(|x| x.chars().take(40).collect::<String>()), want_s.as_ref().map(|x| x.chars().take(40).collect::<String>()));
    ensure!(y == c.year, "c18:year", "year {:?} != {:?}", y, c.year);
    ensure!(p == c.poster, "c18:poster", "poster ({:?} bytes) != encoded ({:?} bytes)", p.as_ref().map(|x| x.len()), c.poster.as_ref().map(|x| x.len()));
    // the same answers through a reader derived with read_fragment_header (it carries the movie's moov)
    {
        let mut fm = c.movie.clone();
        fm.tracks.truncate(1);
        for t in fm.tracks.iter_mut() {
            t.samples.clear();
            t.chunks.clear();
            t.stsc_breaks.clear();
            t.stts_breaks.clear();
            t.ctts_breaks.clear();
        }
        fm.frags = vec![crate::refmp4::movie::Fragment {
            seq: 1,
            mdat_first: false,
            trafs: vec![crate::refmp4::movie::Traf { track: 0, base: crate::refmp4::movie::BaseMode::DefaultBaseIsMoof, tfdt: Some((0, 0)), tfhd_dur: Some(1), tfhd_size: None, tfhd_flags: None, tfhd_sdi: None, trun_dur: false, trun_cts: false, trun_flags: false, trun_first_flags: None, trun_version: 0, lead: 0, samples: vec![crate::refmp4::movie::Sample { size: 2, dur: 1, cts: 0, sync: true }], has_trun: true, trun_size: true }],
        }];
        let fb = build(&fm);
        let init = open(&fb.bytes[..fb.init_len])?;
        let seg = fb.segment.clone();
        let n = seg.len() as u64;
        match guarded("read_fragment_header", || init.read_fragment_header(std::io::Cursor::new(seg), n))? {
            Ok(fr) => {
                let md = fr.metadata();
                let t2 = guarded("metadata.title", || md.title().map(|c| c.into_owned()))?;
                let y2 = guarded("metadata.year", || md.year())?;
                let p2 = guarded("metadata.poster", || md.poster().map(|b| b.to_vec()))?;
                let s2 = guarded("metadata.summary", || md.summary().map(|c| c.into_owned()))?;
                ensure!((t2, y2, p2, s2) == (t.clone(), y, p.clone(), s.clone()), "c18:fragment-reader-metadata", "the reader derived with read_fragment_header reports different metadata than the reader of the file itself");
                ctx.count("also-through-fragment-reader");
            }
            Err(e) => ensure!(false, "c18:fragment-open-failed", "read_fragment_header failed on a valid segment: {}", e),
        }
    }
    // metamorphic: strip everything unknown
    let mut stripped = c.movie.clone();
    let mut had_unknown = stripped.moov_meta.take().is_some();
    if let Some(me) = stripped.meta.as_mut() {
        had_unknown |= !me.udta_extra.is_empty();
        me.udta_extra.clear();
        if let Some(items) = me.items.as_mut() {
            let known = |t: &[u8; 4]| t == &[0xa9, b'n', b'a', b'm'] || t == &[0xa9, b'd', b'a', b'y'] || t == b"covr" || t == b"desc";
            let n = items.len();
            items.retain(|i| known(&i.typ));
            had_unknown |= items.len() != n;
            for i in items.iter_mut() {
                had_unknown |= !i.pre.is_empty() || !i.post.is_empty();
                i.pre.clear();
                i.post.clear();
            }
        }
    }
    if had_unknown {
        let b2 = build(&stripped);
        let a2 = answers(&b2.bytes)?;
        ensure!(a2 == (t.clone(), y, p.clone(), s.clone()), "c18:unknown-items-change-answer", "answers differ once unknown items/atoms are removed");
    }
    // classes
    let me = c.movie.meta.as_ref();
    let known = [c.title.is_some(), c.year.is_some(), c.poster.is_some(), c.summary.is_some()].iter().filter(|x| **x).count();
    let absent_case = me.is_none() || me.map(|m| m.handler != *b"mdir" || m.items.is_none()).unwrap_or(false) || known < 4;
    if me.is_none() {
        ctx.count("no-udta");
    }
    if let Some(m) = me {
        if m.handler != *b"mdir" {
            ctx.count("other-handler");
        }
        if m.quicktime {
            ctx.count("quicktime-style-meta");
        }
        if m.items.is_none() {
            ctx.count("meta-without-ilst");
        }
        if m.hdlr_last {
            ctx.count("hdlr-after-ilst");
        }
        if m.large_seed != 0 {
            ctx.count("64-bit-headers-in-udta-subtree");
        }
        if c.movie.moov_meta.is_some() {
            ctx.count("decoy-meta-directly-in-moov");
        }
    }
    if had_unknown {
        ctx.count("has-unknown-items-or-atoms");
    }
    ctx.count(&format!("known-items={}", known));
    if c.year.is_some() {
        ctx.count("year-present");
    }
    if (known >= 1 && had_unknown) || absent_case {
        let mut h = Fnv::new();
        h.write(serde_json::to_string(&c.movie.meta).unwrap_or_default().as_bytes());
        ctx.nontrivial(h.finish());
        ctx.sample(if absent_case { "absence" } else { "known+unknown" }, &c.movie.meta);
    }
    Ok(())
}

pub fn case_strategy() -> impl Strategy<Value = Case> {
    // decoy: a second meta box (any handler, its own item list) directly in moov, which is not user
    // data; only generated next to a udta so that the expected answers stay those of udta
    let decoy = prop::option::weighted(0.25, (gen::meta_strategy(), any::<bool>()));
    (gen::table_movie(1, 3), prop::option::weighted(0.9, gen::meta_strategy()), decoy).prop_map(|(mut movie, meta, decoy): (Movie, Option<(Meta, MetaExpect)>, Option<((Meta, MetaExpect), bool)>)| {
        match meta {
            Some((m, e)) => {
                movie.meta = Some(m);
                movie.moov_meta = decoy.map(|((dm, _), first)| (dm, first));
                Case { movie, title: e.title, summary: e.summary, year: e.year, poster: e.poster }
            }
            None => Case { movie, title: None, summary: None, year: None, poster: None },
        }
    })
}

pub fn run(ctx: &mut Ctx) {
    ctx.stage("random");
    let cases = ctx.pick(300_000u32, 2_000_000u32) / ctx.nshards;
    ctx.run_prop(case_strategy(), cases, |ctx, c| oracle(ctx, c));
}

pub fn replay(ctx: &mut Ctx, _stage: &str, case: &Value) -> Check {
    let c: Case = serde_json::from_value(case.clone()).map_err(|e| Failure::new("replay:bad-case", e.to_string()))?;
    oracle(ctx, &c)
}
