//! C15 — reads are history-independent; muxing and parsing are deterministic.
use super::PropMeta;
use crate::adv;
use crate::engine::{guard, Check, Ctx, Failure, Fnv};
use crate::gen;
use crate::mux::{self, MuxCase};
use crate::refmp4::movie::{build, Movie};
use crate::{ensure, fail};
use mp4::{Mp4Box, Mp4Reader};
use proptest::prelude::*;
use serde::{Deserialize, Serialize};
use serde_json::Value;
use std::collections::HashMap;
use std::io::Cursor;

pub const META: PropMeta = PropMeta {
    level: "exploration",
    rule: "stateful: a file (reference-encoded table or fragmented movie, muxer output of a generated history, or a canned file) plus a generated schedule of 0..200 reader calls (kind in {read_sample, sample_offset, sample_count, track accessors, movie accessors}, track in existing + missing, sample id in valid + {0, count+1, u32::MAX, aliases of valid ids modulo 2^8/2^16/2^24/2^31}, missing track ids far away or aliasing an existing id) with repeats and failing calls, executed on ONE reader; oracle: the normalised result of every call equals the result of the same single call on a FRESH reader. Determinism: the same muxing history run twice (once on another thread) gives identical bytes, and so does a run with a real pause of 1.25 s (thorough 2.6 s) before a generated call ('paced' stage, bounded by count); the same bytes opened twice give equal ftyp/moov/moofs/emsgs (PartialEq) and equal JSON (compared as parsed values, so ilst item order is irrelevant). Non-trivial = schedule of >= 5 calls that is not sorted ascending and involves >= 2 tracks or a failing call followed by a succeeding one. Distinct = hash of (file fingerprint, schedule).",
    assumptions: &["results are normalised to (bytes, start, duration, offset, sync) / None / error text"],
};

#[derive(Clone, Debug, Serialize, Deserialize, PartialEq, Eq, Hash)]
pub struct Call {
    pub kind: u8, // 0 read_sample, 1 sample_offset, 2 sample_count, 3 track accessors, 4 movie accessors
    pub track: u32,
    pub id: u32,
}

#[derive(Clone, Debug, Serialize, Deserialize)]
pub enum Source {
    /// fragmented movie opened as init segment + separately opened media segment; with the flag set
    /// the first traf of the segment names a track id the init segment does not declare
    InitSeg(Movie, bool),
    /// a movie whose first chunk offset / a sample size of one track is patched so that some
    /// samples lie beyond the end of the file (their reads fail at the I/O level, after the seek)
    Patched(Movie, u16, bool),
    /// a movie whose tables disagree: the last run of one track's stts covers fewer samples than
    /// stsz announces, so that late samples have an offset, a size and data but no decode time
    /// (their reads fail after the data was fetched)
    ShortStts(Movie, u16),
    Movie(Movie),
    Mux(MuxCase),
    Canned(String),
}

#[derive(Clone, Debug, Serialize, Deserialize)]
pub struct Case {
    pub source: Source,
    /// raw schedule: (kind, track fraction, id selector, id fraction)
    pub schedule: Vec<(u8, u16, u8, u16)>,
}

/// (bytes of the stream the schedule runs on, init segment to open it against)
fn init_seg_of(m: &Movie, unknown_track: bool) -> (Vec<u8>, Vec<u8>) {
    let b = build(m);
    let mut seg = b.segment.clone();
    if unknown_track {
        let boxes = crate::refmp4::parse::walk_lenient(&seg);
        let mut fields = Vec::new();
        crate::refmp4::parse::field_map(&seg, &boxes, &mut fields);
        if let Some(f) = fields.iter().find(|f| &f.boxtype == b"tfhd" && f.kind == crate::refmp4::parse::FieldKind::Value) {
            crate::adv::write_field(&mut seg, f, 0x4242);
        }
    }
    (seg, b.bytes[..b.init_len].to_vec())
}

fn bytes_of(src: &Source) -> Option<Vec<u8>> {
    match src {
        Source::InitSeg(m, u) => Some(init_seg_of(m, *u).0),
        Source::Patched(m, which, offset_kind) => {
            let mut bytes = build(m).bytes;
            let boxes = crate::refmp4::parse::walk_lenient(&bytes);
            let mut fields = Vec::new();
            crate::refmp4::parse::field_map(&bytes, &boxes, &mut fields);
            use crate::refmp4::parse::FieldKind;
            let cands: Vec<&crate::refmp4::parse::Field> = fields.iter().filter(|f| if *offset_kind { f.kind == FieldKind::Offset && (&f.boxtype == b"stco" || &f.boxtype == b"co64") } else { f.kind == FieldKind::Length && &f.boxtype == b"stsz" && f.off >= 16 }).collect();
            if !cands.is_empty() {
                let f = cands[(*which as usize * cands.len()) >> 16];
                let v = if *offset_kind { bytes.len() as u64 - 1 } else { 0x00ff_ffff };
                if crate::adv::read_field(&bytes, f) != 0 || *offset_kind {
                    crate::adv::write_field(&mut bytes, f, v);
                }
            }
            Some(bytes)
        }
        Source::ShortStts(m, which) => {
            let mut bytes = build(m).bytes;
            let hits: Vec<usize> = bytes.windows(4).enumerate().filter(|(_, w)| *w == b"stts").map(|(i, _)| i).collect();
            if !hits.is_empty() {
                let p = hits[(*which as usize * hits.len()) >> 16];
                if p + 12 <= bytes.len() {
                    let n = u32::from_be_bytes(bytes[p + 8..p + 12].try_into().unwrap()) as usize;
                    let at = p + 12 + 8 * n.saturating_sub(1);
                    if n >= 1 && n < 100_000 && at + 4 <= bytes.len() {
                        let c = u32::from_be_bytes(bytes[at..at + 4].try_into().unwrap());
                        let less = c.saturating_sub(1 + *which as u32 % 3);
                        bytes[at..at + 4].copy_from_slice(&less.to_be_bytes());
                    }
                }
            }
            Some(bytes)
        }
        Source::Movie(m) => Some(build(m).bytes),
        Source::Mux(c) => {
            let (r, b) = mux::run_mux_vec(c);
            if r.panicked || !r.all_ok {
                None
            } else {
                Some(b)
            }
        }
        Source::Canned(n) => Some(adv::canned(n)),
    }
}

type Rd = Mp4Reader<Cursor<Vec<u8>>>;

fn open_plain(bytes: &[u8]) -> Result<Rd, String> {
    Mp4Reader::read_header(Cursor::new(bytes.to_vec()), bytes.len() as u64).map_err(|e| e.to_string())
}

thread_local! {
    /// init segment of the case being executed (None: the bytes are a complete file)
    static INIT: std::cell::RefCell<Option<Vec<u8>>> = std::cell::RefCell::new(None);
}

/// open the case's bytes the way the case says: as a file, or as a media segment against its init segment
fn open(bytes: &[u8]) -> Result<Rd, String> {
    let init = INIT.with(|i| i.borrow().clone());
    match init {
        None => open_plain(bytes),
        Some(i) => {
            let ir = open_plain(&i)?;
            match guard(|| ir.read_fragment_header(Cursor::new(bytes.to_vec()), bytes.len() as u64)) {
                Ok(r) => r.map_err(|e| e.to_string()),
                Err(p) => Err(format!("PANIC {}", p.msg)),
            }
        }
    }
}

fn exec(r: &mut Rd, c: &Call) -> Result<String, Failure> {
    let out = match c.kind {
        0 => match guard(|| r.read_sample(c.track, c.id)).map_err(|p| p.failure("read_sample"))? {
            Ok(Some(s)) => format!("sample {} bytes fnv {:016x} start {} dur {} cts {} sync {}", s.bytes.len(), crate::engine::fnv64(&s.bytes), s.start_time, s.duration, s.rendering_offset, s.is_sync),
            Ok(None) => "none".to_string(),
            Err(e) => format!("err {}", e),
        },
        1 => match guard(|| r.sample_offset(c.track, c.id)).map_err(|p| p.failure("sample_offset"))? {
            Ok(o) => format!("offset {}", o),
            Err(e) => format!("err {}", e),
        },
        2 => match guard(|| r.sample_count(c.track)).map_err(|p| p.failure("sample_count"))? {
            Ok(o) => format!("count {}", o),
            Err(e) => format!("err {}", e),
        },
        3 => match r.tracks().get(&c.track) {
            None => "no such track".to_string(),
            Some(t) => guard(|| {
                format!(
                    "{} {:?} {:?} {:?} {}x{} {} {} {:?} {} {:?} {:?} {:?}",
                    t.track_id(),
                    t.track_type().map(|x| x.to_string()).map_err(|e| e.to_string()),
                    t.media_type().map(|x| x.to_string()).map_err(|e| e.to_string()),
                    t.box_type().map(|x| x.to_string()).map_err(|e| e.to_string()),
                    t.width(),
                    t.height(),
                    t.language(),
                    t.timescale(),
                    t.duration(),
                    t.bitrate(),
                    t.sample_count(),
                    t.video_profile().map(|x| x.to_string()).map_err(|e| e.to_string()),
                    t.audio_profile().map(|x| x.to_string()).map_err(|e| e.to_string()),
                )
            })
            .map_err(|p| p.failure("track accessors"))?,
        },
        _ => guard(|| format!("{} {} {} {:?} {} {} {}", r.size(), r.major_brand(), r.minor_version(), r.duration(), r.timescale(), r.is_fragmented(), r.compatible_brands().len())).map_err(|p| p.failure("movie accessors"))?,
    };
    Ok(out)
}

pub fn resolve(r: &Rd, raw: &[(u8, u16, u8, u16)]) -> Vec<Call> {
    let mut ids: Vec<u32> = r.tracks().keys().copied().collect();
    ids.sort();
    let counts: HashMap<u32, u32> = ids.iter().map(|i| (*i, r.tracks()[i].sample_count())).collect();
    raw.iter()
        .map(|(kind, tf, sel, idf)| {
            // tracks: existing ones plus one missing id
            let n = ids.len() + 1;
            let ti = (*tf as usize * n) >> 16;
            // the missing id is either far away or an alias of an existing id modulo 2^8 / 2^16 / 2^24
            // (what a packed cache key or a truncating conversion would confuse it with)
            let track = if ti < ids.len() {
                ids[ti]
            } else if ids.is_empty() || idf & 1 == 0 {
                0x7777_0001
            } else {
                ids[(*idf as usize >> 3) % ids.len()].wrapping_add(1u32 << [8, 16, 24][(*idf as usize >> 1) % 3])
            };
            let count = counts.get(&track).copied().unwrap_or(0);
            let id = match sel % 8 {
                0 => 0,
                1 => count.wrapping_add(1),
                // out of range, but equal to a valid id modulo 2^8 / 2^16 / 2^24 / 2^31
                2 => (1 + ((*idf as u64 * count.clamp(1, 4096) as u64) >> 16) as u32).wrapping_add(1u32 << [8, 16, 24, 31][*idf as usize & 3]),
                3 => u32::MAX,
                _ => {
                    if count == 0 {
                        1
                    } else {
                        1 + ((*idf as u64 * count.min(4096) as u64) >> 16) as u32
                    }
                }
            };
            Call { kind: kind % 5, track, id }
        })
        .collect()
}

pub fn oracle(ctx: &mut Ctx, case: &Case) -> Check {
    let init = if let Source::InitSeg(m, u) = &case.source { Some(init_seg_of(m, *u).1) } else { None };
    INIT.with(|i| *i.borrow_mut() = init.clone());
    let r = oracle_inner(ctx, case);
    INIT.with(|i| *i.borrow_mut() = None);
    r
}

fn oracle_inner(ctx: &mut Ctx, case: &Case) -> Check {
    if let Source::InitSeg(..) = &case.source {
        // opening the same (init, segment) pair several times must give the same outcome
        let bytes = bytes_of(&case.source).unwrap_or_default();
        let mut outcomes: Vec<String> = Vec::new();
        for _ in 0..6 {
            outcomes.push(match open(&bytes) {
                Ok(r) => {
                    let mut a: Vec<(u32, u32, usize, Vec<u64>)> = r.tracks().iter().map(|(k, t)| (*k, t.sample_count(), t.trafs.len(), t.moof_offsets.clone())).collect();
                    a.sort();
                    format!("ok {:?}", a)
                }
                Err(e) => format!("err {}", e),
            });
        }
        ensure!(outcomes.iter().all(|o| *o == outcomes[0]), "c15:fragment-open-nondeterministic", "opening the same init + media segment pair 6 times gave different outcomes: {:?}", { let mut u = outcomes.clone(); u.sort(); u.dedup(); u.iter().map(|x| x.chars().take(120).collect::<String>()).collect::<Vec<_>>() });
        ctx.count("determinism:init+segment-opened-6-times");
    }
    let Some(bytes) = bytes_of(&case.source) else {
        ctx.count("source:muxer-rejected(outside-property)");
        return Ok(());
    };
    // determinism of muxing
    if let Source::Mux(c) = &case.source {
        let c2 = c.clone();
        let other = std::thread::spawn(move || mux::run_mux_vec(&c2).1).join().map_err(|_| Failure::new("c15:mux-thread-panicked", "second mux run panicked"))?;
        ensure!(other == bytes, "c15:mux-nondeterministic", "the same history muxed twice gives different bytes ({} vs {} bytes)", bytes.len(), other.len());
        ctx.count("determinism:mux-twice");
    }
    let mut shared = match open(&bytes) {
        Ok(r) => r,
        Err(_) => {
            ctx.count("source:does-not-open");
            return Ok(());
        }
    };
    // determinism of parsing
    {
        let again = open(&bytes).map_err(|e| Failure::new("c15:second-open-failed", e))?;
        ensure!(again.ftyp == shared.ftyp && again.moov == shared.moov && again.moofs == shared.moofs && again.emsgs == shared.emsgs, "c15:parse-nondeterministic", "opening the same bytes twice gives unequal boxes");
        let j1 = guard(|| shared.moov.to_json()).map_err(|p| p.failure("to_json(moov)"))?.map_err(|e| Failure::new("c15:to_json-error", e.to_string()))?;
        let j2 = again.moov.to_json().map_err(|e| Failure::new("c15:to_json-error", e.to_string()))?;
        let v1: Value = serde_json::from_str(&j1).map_err(|e| Failure::new("c15:json-invalid", e.to_string()))?;
        let v2: Value = serde_json::from_str(&j2).map_err(|e| Failure::new("c15:json-invalid", e.to_string()))?;
        ensure!(v1 == v2, "c15:json-nondeterministic", "JSON of moov differs between two opens of the same bytes");
        let mut a: Vec<(u32, u32, usize, Vec<u64>)> = shared.tracks().iter().map(|(k, t)| (*k, t.sample_count(), t.trafs.len(), t.moof_offsets.clone())).collect();
        let mut b: Vec<(u32, u32, usize, Vec<u64>)> = again.tracks().iter().map(|(k, t)| (*k, t.sample_count(), t.trafs.len(), t.moof_offsets.clone())).collect();
        a.sort();
        b.sort();
        ensure!(a == b, "c15:track-state-nondeterministic", "per-track state differs between two opens");
    }
    let calls = resolve(&shared, &case.schedule);
    let mut baseline: HashMap<Call, String> = HashMap::new();
    let mut prev_failed = false;
    let mut fail_then_ok = false;
    for (i, c) in calls.iter().enumerate() {
        let got = exec(&mut shared, c)?;
        let want = match baseline.get(c) {
            Some(w) => w.clone(),
            None => {
                let mut fresh = open(&bytes).map_err(|e| Failure::new("c15:fresh-open-failed", e))?;
                let w = exec(&mut fresh, c)?;
                baseline.insert(c.clone(), w.clone());
                w
            }
        };
        if got != want {
            fail!(format!("c15:history-dependent:kind{}", c.kind), "call #{} {:?} after {} earlier calls returned [{}] but a fresh reader returns [{}]", i, c, i, got.chars().take(120).collect::<String>(), want.chars().take(120).collect::<String>());
        }
        let failed = got.starts_with("err") || got == "none" || got == "no such track";
        if got.starts_with("err") && (got.contains("fill whole buffer") || got.contains("UnexpectedEof")) {
            ctx.count("schedule:call-failed-at-io-level");
        }
        if prev_failed && !failed {
            fail_then_ok = true;
        }
        prev_failed = failed;
    }
    // classes
    let tracks: std::collections::BTreeSet<u32> = calls.iter().map(|c| c.track).collect();
    let sorted = calls.windows(2).all(|w| (w[0].track, w[0].id) <= (w[1].track, w[1].id));
    if calls.len() >= 5 && !sorted && (tracks.len() >= 2 || fail_then_ok) {
        let mut h = Fnv::new();
        h.write_u64(crate::engine::fnv64(&bytes));
        for c in &calls {
            h.write_u64(c.kind as u64 | (c.track as u64) << 8 | (c.id as u64) << 40);
        }
        ctx.nontrivial(h.finish());
        ctx.sample("nontrivial", &serde_json::json!({"source": match &case.source { Source::InitSeg(..) => "media segment against its init segment", Source::Patched(..) => "movie with samples beyond the end of the file", Source::ShortStts(..) => "movie whose stts covers fewer samples than stsz", Source::Movie(_) => "reference-encoded movie", Source::Mux(_) => "muxer output", Source::Canned(n) => n.as_str() }, "file_len": bytes.len(), "calls": calls.iter().take(12).collect::<Vec<_>>(), "n_calls": calls.len()}));
    }
    ctx.count(match &case.source {
        Source::InitSeg(_, false) => "source:init+segment",
        Source::InitSeg(_, true) => "source:init+segment-with-undeclared-track-id",
        Source::Patched(..) => "source:movie-with-unreadable-samples",
        Source::ShortStts(..) => "source:movie-whose-stts-covers-fewer-samples-than-stsz",
        Source::Movie(m) if !m.frags.is_empty() => "source:fragmented-movie",
        Source::Movie(_) => "source:table-movie",
        Source::Mux(_) => "source:muxer-output",
        Source::Canned(_) => "source:canned",
    });
    if fail_then_ok {
        ctx.count("schedule:failing-call-then-succeeding-call");
    }
    if calls.len() != calls.iter().collect::<std::collections::HashSet<_>>().len() {
        ctx.count("schedule:repeated-call");
    }
    Ok(())
}

pub fn case_strategy(max_calls: usize) -> impl Strategy<Value = Case> {
    let source = prop_oneof![
        4 => gen::table_movie(3, 24).prop_map(Source::Movie),
        3 => (gen::table_movie(2, 10), any::<u16>(), any::<bool>()).prop_map(|(m, w, k)| Source::Patched(m, w, k)),
        2 => (gen::table_movie(2, 10), any::<u16>()).prop_map(|(m, w)| Source::ShortStts(m, w)),
        3 => gen::frag_movie(3, 4, 5).prop_map(Source::Movie),
        2 => (gen::frag_movie(3, 3, 4), prop::bool::weighted(0.4)).prop_map(|(m, u)| Source::InitSeg(m, u)),
        3 => mux::mux_history(3, 24, 0.0).prop_map(Source::Mux),
        1 => prop_oneof![Just("minimal.mp4"), Just("extended_audio_object_type.mp4"), Just("minimal_init.mp4")].prop_map(|n| Source::Canned(n.to_string())),
    ];
    (source, prop::collection::vec((0u8..5, any::<u16>(), 0u8..8, any::<u16>()), 0..=max_calls)).prop_map(|(source, schedule)| Case { source, schedule })
}

/// Canaries: one reference-encoded box of every kind, decoded through the stand-alone decoders at
/// the start of the run and again after every 64th case. Their results may not change, whatever
/// files were opened in between: state that survives outside the readers (process-wide or
/// per-thread flags, modes, caches) would show as a canary that decodes differently.
pub struct Canaries {
    inputs: Vec<(crate::boxes::Spec, Vec<u8>)>,
    want: Vec<String>,
}

struct JsonOf<'a> {
    kind: &'a str,
    bytes: &'a [u8],
}

impl<'a> crate::libbox::Visitor for JsonOf<'a> {
    type Out = String;
    fn visit<T: crate::libbox::LibBox>(&mut self, w: &T) -> String {
        match crate::libbox::decode(w, self.bytes, self.kind) {
            Ok(Ok((v, pos))) => match guard(|| mp4::Mp4Box::to_json(&v)) {
                // parsed, so that the order in which a HashMap is serialised does not matter
                Ok(Ok(j)) => format!("{}@{}", serde_json::from_str::<Value>(&j).map(|x| x.to_string()).unwrap_or(j), pos),
                Ok(Err(e)) => format!("json-err {}", e),
                Err(p) => format!("json-panic {}", p.sig("to_json")),
            },
            Ok(Err(e)) => format!("err {}", e),
            Err(f) => format!("panic {}", f.sig),
        }
    }
}

impl Canaries {
    pub fn new() -> Self {
        let mut runner = gen::fixed_runner(15);
        let inputs: Vec<(crate::boxes::Spec, Vec<u8>)> = crate::boxes::KINDS
            .iter()
            .map(|k| {
                let spec = gen::draw(&crate::boxes::strategy(k, 2), &mut runner);
                let bytes = spec.node().render();
                (spec, bytes)
            })
            .collect();
        let mut c = Canaries { inputs, want: Vec::new() };
        c.want = c.digests();
        c
    }
    /// `reverse`: decode the canaries last-to-first (a canary may itself reset the state another
    /// one depends on, so both orders are used)
    fn digests_in(&self, reverse: bool) -> Vec<String> {
        let mut out = vec![String::new(); self.inputs.len()];
        let order: Vec<usize> = if reverse { (0..self.inputs.len()).rev().collect() } else { (0..self.inputs.len()).collect() };
        for i in order {
            out[i] = self.digest_one(i);
        }
        out
    }
    fn digests(&self) -> Vec<String> {
        self.digests_in(false)
    }
    fn digest_one(&self, i: usize) -> String {
        [&self.inputs[i]]
            .iter()
            .map(|(spec, bytes)| {
                let mut v = JsonOf { kind: spec.kind(), bytes };
                match crate::libbox::with_lib(spec, &mut v) {
                    Some(s) => s,
                    None => {
                        use crate::libbox::Visitor;
                        v.visit(&crate::libbox::dinf_witness())
                    }
                }
            })
            .collect::<Vec<String>>()
            .pop()
            .unwrap_or_default()
    }
    pub fn check(&self) -> Check {
        let rev = self.digests_in(true);
        let fwd = self.digests_in(false);
        for (i, (a, b)) in self.want.iter().zip(rev.iter()).chain(self.want.iter().zip(fwd.iter())).enumerate() {
            let i = i % self.inputs.len();
            if a != b {
                let k = self.inputs[i].0.kind();
                fail!(format!("c15:canary-decodes-differently:{}", k), "the reference {} box decodes differently than at the start of the run (same bytes, same call): state outside the readers has changed\n  before: {}\n  now:    {}", k, a.chars().take(300).collect::<String>(), b.chars().take(300).collect::<String>());
            }
        }
        Ok(())
    }
}

pub fn run(ctx: &mut Ctx) {
    ctx.stage("random");
    let cases = ctx.pick(100_000u32, 800_000u32) / ctx.nshards;
    let maxc = ctx.pick(60usize, 200usize);
    let canaries = Canaries::new();
    let counter = std::cell::Cell::new(0u64);
    ctx.run_prop(case_strategy(maxc), cases, |ctx, c| {
        oracle(ctx, c)?;
        counter.set(counter.get() + 1);
        if counter.get() % 64 == 0 {
            canaries.check()?;
            ctx.count("canaries-rechecked");
        }
        Ok(())
    });
    // ---- the same history muxed with real time passing between two calls ----
    // (the harness owns the schedule: one run back to back, one with a pause before a generated
    // call; the bytes must be equal. Bounded by count, each case costs the pause in wall time only.)
    // ---- soak: the same call repeated very many times on one thread keeps returning the same
    // result (state that lives outside the reader - process-wide or per-thread counters, caches,
    // budgets - would show here and nowhere else) ----
    ctx.stage("soak");
    if ctx.enter(0) {
        let reps = ctx.pick(260_000u32, 1_200_000u32);
        let res = soak(ctx, reps);
        ctx.judge(&serde_json::json!({"soak_repetitions": reps}), res);
    }
    ctx.stage("paced");
    let (n, ms) = ctx.pick((3u32, 1250u64), (10u32, 2600u64));
    ctx.run_prop((mux::mux_history(3, 24, 0.0), any::<u16>()).prop_map(move |(case, frac)| Paced { case, frac, ms }), n, |ctx, p| paced(ctx, p));
}

fn soak(ctx: &mut Ctx, reps: u32) -> Check {
    let fb = crate::refmp4::movie::build(&crate::adv::kitchen_sink_frag(0));
    let init_bytes = fb.bytes[..fb.init_len].to_vec();
    let seg = fb.segment.clone();
    let init = Mp4Reader::read_header(Cursor::new(init_bytes.clone()), init_bytes.len() as u64).map_err(|e| Failure::new("c15:soak-init-open-failed", e.to_string()))?;
    let n = seg.len() as u64;
    let first = guard(|| init.read_fragment_header(Cursor::new(seg.clone()), n).map(|r| (r.moofs.clone(), r.tracks().len())).map_err(|e| e.to_string())).map_err(|p| p.failure("read_fragment_header"))?;
    ensure!(first.is_ok(), "c15:soak-segment-open-failed", "the reference segment does not open: {:?}", first.as_ref().err());
    let boxes_per_open = crate::refmp4::parse::walk_lenient(&seg).iter().map(|b| 1 + count_boxes(&b.children)).sum::<usize>();
    for i in 1..=reps {
        let again = guard(|| init.read_fragment_header(Cursor::new(seg.clone()), n).map(|r| (r.moofs.clone(), r.tracks().len())).map_err(|e| e.to_string())).map_err(|p| p.failure("read_fragment_header"))?;
        ensure!(again == first, "c15:soak-fragment-open-differs", "opening the same media segment against the same init reader for the {}th time on one thread gives a different result than the first time: {:?}", i + 1, again.as_ref().err());
        if i % 50_000 == 0 {
            ctx.heartbeat();
        }
    }
    // the same for sample reads on one long-lived reader of a plain file
    let tb = crate::refmp4::movie::build(&crate::adv::kitchen_sink(0));
    let mut r = Mp4Reader::read_header(Cursor::new(tb.bytes.clone()), tb.bytes.len() as u64).map_err(|e| Failure::new("c15:soak-open-failed", e.to_string()))?;
    let want = guard(|| r.read_sample(1, 2).map(|s| s.map(|s| (s.bytes.to_vec(), s.start_time, s.duration))).map_err(|e| e.to_string())).map_err(|p| p.failure("read_sample"))?;
    for i in 1..=reps {
        let got = guard(|| r.read_sample(1, 2).map(|s| s.map(|s| (s.bytes.to_vec(), s.start_time, s.duration))).map_err(|e| e.to_string())).map_err(|p| p.failure("read_sample"))?;
        ensure!(got == want, "c15:soak-read-sample-differs", "read_sample(1, 2) repeated {} times on one reader gives a different result than the first time", i + 1);
        if i % 50_000 == 0 {
            ctx.heartbeat();
        }
    }
    ctx.count("soak:completed");
    ctx.extra.insert("soak".into(), serde_json::json!({"fragment_opens": reps, "box_headers_per_open": boxes_per_open, "box_headers_total": reps as u64 * boxes_per_open as u64, "sample_reads": reps}));
    Ok(())
}

fn count_boxes(b: &[crate::refmp4::parse::PBox]) -> usize {
    b.iter().map(|x| 1 + count_boxes(&x.children)).sum()
}

#[derive(Clone, Debug, Serialize, Deserialize)]
pub struct Paced {
    pub case: MuxCase,
    pub frac: u16,
    pub ms: u64,
}

fn paced(ctx: &mut Ctx, p: &Paced) -> Check {
    let (c, frac, ms) = (&p.case, p.frac, p.ms);
    if c.ops.len() < 2 {
        ctx.count("paced:history-too-short");
        return Ok(());
    }
    // never before the first call: a pause there precedes all state
    let at = 1 + ((frac as usize * (c.ops.len() - 1)) >> 16);
    let (r1, plain) = mux::run_mux_vec(c);
    if !r1.all_ok || r1.panicked {
        ctx.count("paced:muxer-rejected(outside-property)");
        return Ok(());
    }
    let c2 = c.clone();
    let slow = std::thread::spawn(move || {
        mux::PACE.with(|p| p.set(Some((at, ms))));
        mux::run_mux_vec(&c2).1
    })
    .join()
    .map_err(|_| Failure::new("c15:mux-thread-panicked", "paced mux run panicked"))?;
    ensure!(slow == plain, "c15:mux-depends-on-real-time", "the same history muxed with a pause of {} ms before call {} gives different bytes ({} vs {} bytes)", ms, at, slow.len(), plain.len());
    ctx.count("determinism:mux-with-real-time-pause");
    ctx.nontrivial(crate::engine::fnv64(format!("paced:{}:{}", at, serde_json::to_string(c).unwrap_or_default()).as_bytes()));
    ctx.sample("paced", &serde_json::json!({"ops": c.ops.len(), "tracks": c.tracks.len(), "pause_before_call": at, "pause_ms": ms}));
    Ok(())
}

pub fn replay(ctx: &mut Ctx, stage: &str, case: &Value) -> Check {
    if stage == "soak" {
        let reps = case.get("soak_repetitions").and_then(|x| x.as_u64()).unwrap_or(260_000) as u32;
        return soak(ctx, reps);
    }
    if stage == "paced" {
        let p: Paced = serde_json::from_value(case.clone()).map_err(|e| Failure::new("replay:bad-case", e.to_string()))?;
        return paced(ctx, &p);
    }
    let c: Case = serde_json::from_value(case.clone()).map_err(|e| Failure::new("replay:bad-case", e.to_string()))?;
    oracle(ctx, &c)
}
