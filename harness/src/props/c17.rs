//! C17 — muxer API is total: bad arguments are errors, never panics.
use super::PropMeta;
use crate::engine::{Check, Ctx, Failure, Fnv};
use crate::mux::{self, CallOutcome, MKind, MOp, MTrack, MuxCase};
use proptest::prelude::*;
use serde_json::Value;

pub const META: PropMeta = PropMeta {
    level: "exploration",
    rule: "stateful generation over the full value range of every public muxer argument: movie/track timescales incl. 0, SPS/PPS of length 0..5, normal, and > 65535 bytes, language strings (empty, 1, 2, 4+ letters, upper case, non-ASCII, NUL, very long), every u32 duration incl. u32::MAX runs, sample sizes 0..64 KiB and a few >= 16 MiB samples, unknown track ids, no tracks, up to 100 tracks; every call is guarded: oracle = no call panics (both build profiles; process death is caught by the supervisor). Stage 'calls-after-write_end': after the history's write_end, 1..3 further rounds of (write_sample,) write_end on the same writer; none may panic. Stage 'after-io-error': a generated history is muxed into a sink of which one stream call fails (I/O error or zero-length write, position generated), the caller ignores the Err and completes the history: later calls may return Ok or Err, none may panic. Sample and parameter-set content includes Annex B start codes, ADTS headers, all-zero and all-0xFF bytes. When every call returned Ok and every track duration is representable (< 2^62 movie ticks) the C02 structural oracle and the C01 read-back oracle are applied to the output. Non-trivial = at least one argument outside the documented-valid domain, or an all-Ok history that went through the C01/C02 oracles with >= 1 sample. Distinct = hash of the history.",
    assumptions: &["AAC enum arguments are typed in the API, so only declared variants can be passed"],
};

fn weird_lang() -> impl Strategy<Value = String> {
    prop_oneof![
        3 => "[a-z]{3}",
        1 => Just(String::new()),
        1 => "[a-z]{1,2}",
        1 => "[a-z]{4,8}",
        1 => "[A-Z]{3}",
        1 => Just("日本語".to_string()),
        1 => Just("e\u{0}g".to_string()),
        1 => Just("\u{10348}\u{10348}".to_string()),
        1 => "\\PC{0,5}",
        1 => Just("x".repeat(1000)),
    ]
}

fn weird_ts() -> impl Strategy<Value = u32> {
    prop_oneof![2 => Just(0u32), 1 => Just(1u32), 3 => Just(1000u32), 1 => Just(u32::MAX), 2 => any::<u32>(), 2 => crate::gen::timescale_strategy()]
}

fn weird_kind() -> impl Strategy<Value = MKind> {
    prop_oneof![
        6 => mux::valid_kind(),
        3 => (any::<u16>(), any::<u16>(), prop::collection::vec(any::<u8>(), 0..5), prop::collection::vec(any::<u8>(), 0..3)).prop_map(|(width, height, sps, pps)| MKind::Avc { width, height, sps, pps }),
        2 => (prop_oneof![Just(vec![0u8, 0, 0, 1]), Just(vec![0u8, 0, 1]), Just(vec![0u8, 0, 0, 0, 1])], prop::collection::vec(any::<u8>(), 0..6), any::<bool>()).prop_map(|(start, rest, both)| {
            // parameter sets as they come out of an Annex B byte stream (start code still attached)
            let mut sps = start.clone();
            sps.extend(rest);
            let pps = if both { start } else { vec![0x68, 1] };
            MKind::Avc { width: 8, height: 8, sps, pps }
        }),
        1 => (65530usize..65545, any::<bool>()).prop_map(|(n, which)| {
            let big = vec![0x5a; n];
            let small = vec![0x67, 66, 0, 30];
            if which { MKind::Avc { width: 1, height: 1, sps: big, pps: small } } else { MKind::Avc { width: 1, height: 1, sps: small, pps: big } }
        }),
    ]
}

fn weird_track() -> impl Strategy<Value = MTrack> {
    (weird_kind(), weird_ts(), weird_lang(), prop::bool::weighted(0.05)).prop_map(|(kind, timescale, language, preset)| MTrack { kind, timescale, language, preset, ttype: 0 })
}

fn weird_op() -> impl Strategy<Value = (u16, u8, u32, u32, i32, bool)> {
    (
        any::<u16>(),
        0u8..20,
        prop_oneof![4 => Just(0u32), 8 => 0u32..64, 2 => 64u32..65536, 1 => Just(65535u32)],
        prop_oneof![2 => Just(0u32), 3 => 0u32..5000, 2 => any::<u32>(), 2 => Just(u32::MAX), 1 => Just(1u32 << 31)],
        any::<i32>(),
        any::<bool>(),
    )
}

pub fn weird_history() -> impl Strategy<Value = MuxCase> {
    let tracks = prop_oneof![
        1 => Just(Vec::<MTrack>::new()),
        10 => prop::collection::vec(weird_track(), 1..5),
        1 => prop::collection::vec(weird_track(), 30..=100),
    ];
    (crate::gen::cc_strategy(), any::<u32>(), prop::collection::vec(crate::gen::cc_strategy(), 0..4), weird_ts(), tracks, prop::collection::vec(weird_op(), 0..40), prop::bool::weighted(0.004), mux::sink_strategy())
        .prop_map(|(major, minor, compat, timescale, tracks, raw, huge, sink)| {
            let n = tracks.len() as u32;
            let mut ops: Vec<MOp> = raw
                .into_iter()
                .map(|(frac, sel, size, dur, cts, sync)| {
                    let track = match sel {
                        0 => 0,
                        1 => n + 1,
                        2 => u32::MAX,
                        _ => {
                            if n == 0 {
                                1
                            } else {
                                ((frac as u32 * n) >> 16) + 1
                            }
                        }
                    };
                    MOp { track, size, dur, cts, sync }
                })
                .collect();
            if huge && n > 0 {
                // one >= 16 MiB sample on the first AAC track (or track 1)
                let t = tracks.iter().position(|t| matches!(t.kind, MKind::Aac { .. })).unwrap_or(0) as u32 + 1;
                ops.truncate(6);
                ops.push(MOp { track: t, size: (1 << 24) + 3, dur: 1, cts: 0, sync: true });
            }
            MuxCase { major, minor, compat, timescale, tracks, ops, sink }
        })
}

fn out_of_domain(c: &MuxCase) -> bool {
    c.timescale == 0
        || c.tracks.is_empty()
        || c.tracks.iter().any(|t| {
            (!t.preset && t.timescale == 0)
                || !(t.language.len() == 3 && t.language.bytes().all(|b| b.is_ascii_lowercase()))
                || matches!(&t.kind, MKind::Avc { sps, pps, .. } if sps.len() < 4 || sps.len() > 65535 || pps.len() > 65535)
        })
        || c.ops.iter().any(|o| o.track == 0 || o.track as usize > c.tracks.len() || o.size >= 1 << 24)
}

fn fingerprint(c: &MuxCase) -> u64 {
    let mut h = Fnv::new();
    h.write_u64(super::c01::fingerprint(c));
    for t in &c.tracks {
        h.write(t.language.as_bytes());
        if let MKind::Avc { sps, pps, .. } = &t.kind {
            h.write_u64(sps.len() as u64 | (pps.len() as u64) << 32);
        }
    }
    h.finish()
}

pub fn oracle(ctx: &mut Ctx, case: &MuxCase) -> Check {
    let (run, bytes) = mux::run_mux_vec(case);
    if let Some(f) = mux::first_panic(&run) {
        return Err(f);
    }
    let ood = out_of_domain(case);
    let all_ok = run.calls.iter().all(|(_, o)| matches!(o, CallOutcome::Ok));
    let accepted: usize = run.model.iter().map(|m| m.len()).sum();
    let mut through_oracles = false;
    if all_ok && run.calls.iter().any(|(n, _)| n == "write_end") {
        // representable? every track duration in movie ticks < 2^62
        let representable = case.tracks.iter().zip(run.model.iter()).all(|(t, m)| {
            let ts = if t.preset { 1000 } else { t.timescale };
            let sum: u128 = m.iter().map(|s| s.dur as u128).sum();
            ts != 0 && sum * (case.timescale as u128) / (ts as u128) < (1u128 << 62)
        });
        // (if the muxer accepted a configuration this harness expects it to reject, the model of
        // track ids does not apply: nothing to compare against)
        if representable && case.tracks.iter().all(mux::expect_accept) {
            super::c02::validate(case, &run.model, &bytes)?;
            super::c01::check_readback(case, &run, &bytes)?;
            through_oracles = true;
            ctx.count("all-ok:checked-with-C01+C02-oracles");
        } else {
            ctx.count("all-ok:duration-not-representable(no-oracle)");
        }
    } else {
        ctx.count("some-call-returned-Err");
    }
    if ood {
        ctx.count("argument-outside-documented-domain");
    }
    if ood || (through_oracles && accepted >= 1) {
        ctx.nontrivial(fingerprint(case));
        ctx.sample(if ood { "out-of-domain" } else { "all-ok" }, case);
    }
    if case.tracks.len() >= 30 {
        ctx.count("tracks>=30");
    }
    if case.ops.iter().any(|o| o.size >= 1 << 24) {
        ctx.count("sample>=16MiB");
    }
    Ok(())
}

pub fn run(ctx: &mut Ctx) {
    // directed degenerate cases first (one per documented hazard), then random
    ctx.stage("directed");
    let avc = |sps: Vec<u8>| MKind::Avc { width: 2, height: 2, sps, pps: vec![1] };
    let mut directed: Vec<MuxCase> = Vec::new();
    let base = |tracks: Vec<MTrack>, ops: Vec<MOp>, ts: u32| MuxCase { major: *b"isom", minor: 0, compat: vec![], timescale: ts, tracks, ops, sink: 0 };
    let op = |track: u32, size: u32, dur: u32| MOp { track, size, dur, cts: 0, sync: true };
    let tr = |kind: MKind, ts: u32, lang: &str| MTrack { kind, timescale: ts, language: lang.to_string(), preset: false, ttype: 0 };
    directed.push(base(vec![], vec![], 1000));
    directed.push(base(vec![], vec![op(1, 1, 1)], 0));
    for n in 0..5 {
        directed.push(base(vec![tr(avc(vec![7; n]), 1000, "und")], vec![op(1, 1, 1)], 1000));
    }
    for ts in [0u32, 1, u32::MAX] {
        for mts in [0u32, 1, u32::MAX] {
            directed.push(base(vec![tr(MKind::Hevc { width: 1, height: 1 }, ts, "und")], vec![op(1, 1, u32::MAX), op(1, 1, u32::MAX), op(1, 0, 1 << 31)], mts));
        }
    }
    for lang in ["", "a", "ab", "abcd", "ÄÖÜ", "\u{0}\u{0}\u{0}"] {
        directed.push(base(vec![tr(MKind::Ttxt, 1000, lang)], vec![op(1, 2, 10)], 1000));
    }
    directed.push(base(vec![tr(MKind::Aac { profile: 2, freq_index: 4, chan: 2, bitrate: 1 }, 44100, "eng")], vec![op(1, (1 << 24) + 1, 1024)], 1000));
    directed.push(base(vec![tr(MKind::Aac { profile: 42, freq_index: 12, chan: 7, bitrate: u32::MAX }, u32::MAX, "eng")], (0..6).map(|_| op(1, 3, u32::MAX)).collect(), u32::MAX));
    directed.push(base(vec![tr(avc(vec![0x5a; 65536]), 1000, "und")], vec![op(1, 1, 1)], 1000));
    for n in 0..5 {
        let mut sps = vec![0u8, 0, 0, 1];
        sps.extend(std::iter::repeat(0x67).take(n));
        directed.push(base(vec![tr(avc(sps), 1000, "und")], vec![op(1, 1, 1)], 1000));
    }
    directed.push(base(vec![tr(MKind::Avc { width: 1, height: 1, sps: vec![1, 2, 3, 4], pps: vec![9; 70000] }, 1000, "und")], vec![op(1, 1, 1)], 1000));
    for (i, case) in directed.iter().enumerate() {
        if !ctx.enter(i as u64) {
            continue;
        }
        let res = oracle(ctx, case);
        ctx.judge(case, res);
    }
    ctx.stage("random");
    let cases = ctx.pick(300_000u32, 2_000_000u32) / ctx.nshards;
    ctx.run_prop(weird_history(), cases, |ctx, c| oracle(ctx, c));
    // ---- call sequences that go on after a call has failed: one stream call of the sink fails
    // (an I/O error or a zero-length write), the caller ignores the Err and keeps calling
    // write_sample / write_end. Every later call may return Ok or Err; none may panic. ----
    // ---- the writer is still a live object after write_end (it takes &mut self): a second
    // write_end, or write_sample followed by write_end, may return anything but must not panic ----
    ctx.stage("calls-after-write_end");
    let cases = ctx.pick(20_000u32, 200_000u32) / ctx.nshards;
    let strat = (mux::mux_history(3, 30, 0.02), 1u8..4).prop_map(|(case, rounds)| AfterEnd { case, rounds });
    ctx.run_prop(strat, cases, |ctx, c| after_end(ctx, c));
    // ---- sinks handed over just below 4 GiB, so that chunk offsets cross and stay beyond 2^32
    // (the sparse stream and the histories of C13's family (a) and of its long recordings); here
    // only the absence of panics is judged, everything else about these outputs is C13's ----
    ctx.stage("sink-beyond-4GiB");
    let cases = ctx.pick(6_000u32, 60_000u32) / ctx.nshards;
    ctx.run_prop(super::c13::family_a(), cases, |ctx, c| beyond(ctx, c));
    for (i, n) in [40u32, 700].into_iter().enumerate() {
        if !ctx.enter(i as u64) {
            continue;
        }
        let tracks: Vec<MTrack> = (0..2u32).map(|k| super::c13::track_pub(k, 10)).collect();
        let ops: Vec<super::c13::BOp> = (0..n).map(|j| super::c13::BOp { track: 1 + j % 2, size: 3 + j % 5, fill: 1 + (j % 200) as u8, dur: 10, cts: 0, sync: true }).collect();
        let c = super::c13::Case { family: "c17:recording-behind-2^32".into(), start_pos: (1u64 << 32) - 100 + i as u64 * 300, timescale: 1000, tracks, ops, brand: i as u8 };
        ctx.pre_case(&c);
        let res = beyond(ctx, &c);
        ctx.judge(&c, res);
    }
    ctx.stage("after-io-error");
    let cases = ctx.pick(40_000u32, 400_000u32) / ctx.nshards;
    let strat = (mux::mux_history(3, 40, 0.02), any::<u16>(), any::<bool>()).prop_map(|(case, frac, zero)| AfterFault { case, frac, zero });
    ctx.run_prop(strat, cases, |ctx, c| after_fault(ctx, c));
}

/// C13's mux-and-read-back run with only panics kept as failures
pub fn beyond(ctx: &mut Ctx, c: &super::c13::Case) -> Check {
    ctx.count("sink:handed-over-just-below-or-beyond-2^32");
    match super::c13::oracle(ctx, c) {
        Err(f) if f.sig.starts_with("panic@") => Err(f),
        _ => Ok(()),
    }
}

#[derive(Clone, Debug, serde::Serialize, serde::Deserialize)]
pub struct AfterEnd {
    pub case: MuxCase,
    pub rounds: u8,
}

fn after_end(ctx: &mut Ctx, c: &AfterEnd) -> Check {
    mux::AFTER_END.with(|a| a.set(c.rounds));
    let (run, _bytes) = mux::run_mux_vec(&c.case);
    mux::AFTER_END.with(|a| a.set(0));
    if let Some(f) = mux::first_panic(&run) {
        return Err(Failure::new(format!("{}:after-write_end", f.sig), format!("{} (the history's write_end had returned, {} further round(s) of calls were made)", f.detail, c.rounds)));
    }
    if run.calls.iter().any(|(n, _)| n == "write_end-again") {
        ctx.count("calls-after-write_end:completed");
        ctx.nontrivial(fingerprint(&c.case) ^ (c.rounds as u64) << 56);
        ctx.sample("after-write_end", &serde_json::json!({"ops": c.case.ops.len(), "tracks": c.case.tracks.len(), "rounds": c.rounds}));
    }
    Ok(())
}

#[derive(Clone, Debug, serde::Serialize, serde::Deserialize)]
pub struct AfterFault {
    pub case: MuxCase,
    /// which stream call fails, as a fraction of the calls the fault-free run makes
    pub frac: u16,
    pub zero: bool,
}

fn after_fault(ctx: &mut Ctx, c: &AfterFault) -> Check {
    use crate::io::{FaultKind, FaultStream};
    use std::io::Cursor;
    let kind = || if c.zero { FaultKind::Zero } else { FaultKind::Error };
    let (probe, st) = FaultStream::new(Cursor::new(Vec::new()), u64::MAX, kind());
    let r0 = mux::run_mux(&c.case, probe);
    if let Some(f) = mux::first_panic(&r0) {
        return Err(f);
    }
    let total = st.calls.get();
    if total == 0 {
        return Ok(());
    }
    let k = (c.frac as u64 * total) >> 16;
    let (stream, st) = FaultStream::new(Cursor::new(Vec::new()), k, kind());
    let r = mux::run_mux(&c.case, stream);
    if let Some(f) = mux::first_panic(&r) {
        return Err(Failure::new(format!("{}:after-io-error", f.sig), format!("{} (stream call {} of {} had failed with {} and the caller went on)", f.detail, k, total, if c.zero { "a zero-length write" } else { "an I/O error" })));
    }
    if st.fired.get() {
        let after = r.calls.iter().skip_while(|(_, o)| !matches!(o, CallOutcome::Err(_))).count();
        if after >= 2 {
            ctx.count("after-io-error:calls-made-after-the-failed-one");
            ctx.nontrivial(fingerprint(&c.case) ^ k.wrapping_mul(0x9e37_79b9));
            ctx.sample("after-io-error", &serde_json::json!({"ops": c.case.ops.len(), "tracks": c.case.tracks.len(), "failed_stream_call": k, "of": total, "calls_after_failure": after}));
        }
    }
    Ok(())
}

pub fn replay(ctx: &mut Ctx, stage: &str, case: &Value) -> Check {
    if stage == "calls-after-write_end" {
        let c: AfterEnd = serde_json::from_value(case.clone()).map_err(|e| Failure::new("replay:bad-case", e.to_string()))?;
        return after_end(ctx, &c);
    }
    if stage == "sink-beyond-4GiB" {
        let c: super::c13::Case = serde_json::from_value(case.clone()).map_err(|e| Failure::new("replay:bad-case", e.to_string()))?;
        return beyond(ctx, &c);
    }
    if stage == "after-io-error" {
        let c: AfterFault = serde_json::from_value(case.clone()).map_err(|e| Failure::new("replay:bad-case", e.to_string()))?;
        return after_fault(ctx, &c);
    }
    let c: MuxCase = serde_json::from_value(case.clone()).map_err(|e| Failure::new("replay:bad-case", e.to_string()))?;
    oracle(ctx, &c)
}
