//! C13 — 32-bit to 64-bit transitions in the muxer are lossless.
use super::PropMeta;
use crate::engine::{guard, Check, Ctx, Failure, Fnv};
use crate::io::SparseStream;
use crate::mux::{self, MKind, MSample, MTrack, MuxCase};
use crate::refmp4::parse;
use crate::{ensure, fail};
use mp4::Mp4Reader;
use proptest::prelude::*;
use serde::{Deserialize, Serialize};
use serde_json::Value;
use std::io::{Seek, SeekFrom};

pub const META: PropMeta = PropMeta {
    level: "exploration",
    rule: "muxer and reader share a sparse in-memory stream (uniform writes are stored run-length encoded, so > 4 GiB of media data cost a few KB). Boundary families: (a) output starting at stream position P chosen so that the offset of chunk k (k in 0..4) is 2^32+d, d in -3..=3, over all track kinds; (b) cumulative payload: 63 samples of 64 MiB plus a last sample sized so that the mdat box is 2^32-1, 2^32 or 2^32+1 bytes long (+ further small samples beyond 4 GiB); (c) durations: sample durations summing so that the media duration, and independently its image in the movie timescale (ratios 1:1, 1:2, 2:1, 2:3, 3:2), is 2^32+d, d in -2..=2, with 0..2 short tracks before and/or after the long one. Oracle: the reader opened on the same stream (absolute-end size convention) returns every sample (size, fill pattern, start time, duration) and the counts; the harness' own parser checks the header bytes: mdat uses the 64-bit size form iff its size > u32::MAX and the size is exact, chunk offsets use co64 whenever one exceeds u32::MAX and are exact (chunks inside the mdat payload, disjoint), mdhd/tkhd/mvhd use version 1 whenever the value exceeds u32::MAX and are exact (tkhd/mvhd within one tick). Non-trivial = some checked value lies within 2^20 of 2^32 and at least one lies above u32::MAX. Distinct = hash of the case.",
    assumptions: &["single samples >= 4 GiB are out of reach (the statement speaks of cumulative payload)", "big samples carry a uniform per-sample fill byte; neighbouring samples use different fill bytes"],
};

#[derive(Clone, Debug, Serialize, Deserialize, PartialEq, Eq)]
pub struct BOp {
    pub track: u32,
    pub size: u32,
    pub fill: u8,
    pub dur: u32,
    pub cts: i32,
    pub sync: bool,
}

#[derive(Clone, Debug, Serialize, Deserialize)]
pub struct Case {
    pub family: String,
    pub start_pos: u64,
    pub timescale: u32,
    pub tracks: Vec<MTrack>,
    pub ops: Vec<BOp>,
    /// major brand handed to the muxer: index into BRANDS (0 = isom)
    #[serde(default)]
    pub brand: u8,
}

/// brands a caller plausibly asks for; none of them may change how sizes and offsets are stored
pub const BRANDS: [&[u8; 4]; 8] = [b"isom", b"qt  ", b"mp42", b"M4A ", b"M4V ", b"3gp4", b"iso6", b"dash"];

fn kind_for(i: u32) -> MKind {
    match i % 5 {
        0 => MKind::Avc { width: 640, height: 480, sps: vec![0x67, 0x64, 0x00, 0x1f, 0xac], pps: vec![0x68, 0xeb] },
        1 => MKind::Aac { profile: 2, freq_index: 3, chan: 2, bitrate: 64000 },
        2 => MKind::Hevc { width: 64, height: 64 },
        3 => MKind::Vp9 { width: 64, height: 64 },
        _ => MKind::Ttxt,
    }
}

pub struct Outcome {
    pub near: bool,
    pub above: bool,
}

pub fn oracle(ctx: &mut Ctx, c: &Case) -> Check {
    let o = oracle_inner(c)?;
    ctx.count(&format!("family:{}", c.family));
    ctx.count(&format!("major-brand:{}", String::from_utf8_lossy(BRANDS[c.brand as usize % BRANDS.len()])));
    if o.above {
        ctx.count("value-above-u32::MAX");
    }
    if o.near && o.above {
        let mut h = Fnv::new();
        h.write(serde_json::to_string(c).unwrap_or_default().as_bytes());
        ctx.nontrivial(h.finish());
        ctx.sample(&format!("nontrivial:{}", c.family), &serde_json::json!({"family": c.family, "start_pos": c.start_pos, "timescale": c.timescale, "tracks": c.tracks.len(), "ops": c.ops.len(), "first_ops": c.ops.iter().take(4).collect::<Vec<_>>(), "last_op": c.ops.last()}));
    }
    Ok(())
}

fn near32(v: u64) -> bool {
    let b = 1u64 << 32;
    v + (1 << 20) >= b && v <= b + (1 << 20)
}

fn oracle_inner(c: &Case) -> Result<Outcome, Failure> {
    let mut stream = SparseStream::new();
    stream.seek(SeekFrom::Start(c.start_pos)).unwrap();
    let cfg = mp4::Mp4Config { major_brand: mp4::FourCC { value: *BRANDS[c.brand as usize % BRANDS.len()] }, minor_version: 1, compatible_brands: vec![mp4::FourCC { value: *b"mp42" }], timescale: c.timescale };
    let mut w = match guard(|| mp4::Mp4Writer::write_start(stream, &cfg)).map_err(|p| p.failure("write_start"))? {
        Ok(w) => w,
        Err(e) => fail!("c13:write_start", "{}", e),
    };
    for t in &c.tracks {
        let tc = mux::track_config(t).ok_or_else(|| Failure::new("c13:bad-config", "track config"))?;
        match guard(|| w.add_track(&tc)).map_err(|p| p.failure("add_track"))? {
            Ok(()) => {}
            Err(e) => fail!("c13:add_track", "{}", e),
        }
    }
    let mut model: Vec<Vec<MSample>> = vec![Vec::new(); c.tracks.len()];
    let mut fills: Vec<Vec<u8>> = vec![Vec::new(); c.tracks.len()];
    // reuse buffers of equal (size, fill)
    let mut cache: std::collections::HashMap<(u32, u8), mp4::Bytes> = std::collections::HashMap::new();
    for op in &c.ops {
        let bytes = cache.entry((op.size, op.fill)).or_insert_with(|| mp4::Bytes::from(vec![op.fill; op.size as usize])).clone();
        let s = mp4::Mp4Sample { start_time: 0, duration: op.dur, rendering_offset: op.cts, is_sync: op.sync, bytes };
        match guard(|| w.write_sample(op.track, &s)).map_err(|p| p.failure("write_sample"))? {
            Ok(()) => {}
            Err(e) => fail!("c13:write_sample", "{}", e),
        }
        model[op.track as usize - 1].push(MSample { size: op.size, dur: op.dur, cts: op.cts, sync: op.sync });
        fills[op.track as usize - 1].push(op.fill);
    }
    drop(cache);
    match guard(|| w.write_end()).map_err(|p| p.failure("write_end"))? {
        Ok(()) => {}
        Err(e) => fail!("c13:write_end", "{}", e),
    }
    let mut stream = w.into_writer();
    let end = stream.len;
    // ---- independent top-level walk over the sparse stream ----
    let mut pos = c.start_pos;
    let mut ftyp_payload: Option<Vec<u8>> = None;
    let mut moov_bytes: Option<Vec<u8>> = None;
    let mut mdat: Option<(u64, u64, bool)> = None; // payload lo, hi, large form
    let mut order = Vec::new();
    while pos < end {
        let h = stream.read_range(pos, 16.min((end - pos) as usize));
        ensure!(h.len() >= 8, "c13:top-level-truncated", "top-level header at {} truncated", pos);
        let s32 = u32::from_be_bytes([h[0], h[1], h[2], h[3]]) as u64;
        let typ = [h[4], h[5], h[6], h[7]];
        let (hdr, size, large) = if s32 == 1 {
            ensure!(h.len() >= 16, "c13:top-level-truncated", "largesize at {} truncated", pos);
            (16u64, u64::from_be_bytes(h[8..16].try_into().unwrap()), true)
        } else {
            (8u64, s32, false)
        };
        ensure!(size >= hdr && pos + size <= end, "c13:top-level-size", "top-level box {:?} at {} has size {} (stream ends at {})", String::from_utf8_lossy(&typ), pos, size, end);
        order.push(typ);
        match &typ {
            b"ftyp" => ftyp_payload = Some(stream.read_range(pos + hdr, (size - hdr) as usize)),
            b"moov" => moov_bytes = Some(stream.read_range(pos, size as usize)),
            b"mdat" => {
                ensure!(mdat.is_none(), "c13:two-mdat", "more than one mdat");
                // (a size above u32::MAX cannot be stored in the 32-bit form at all: a truncated size
                // field breaks the tiling checked by this walk; using the 64-bit form for a smaller
                // box is legal)
                let _ = large;
                mdat = Some((pos + hdr, pos + size, large));
            }
            _ => {}
        }
        pos += size;
    }
    ensure!(order.first() == Some(b"ftyp"), "c13:ftyp-first", "first box is {:?}", order.first().map(|t| String::from_utf8_lossy(t).to_string()));
    let (md_lo, md_hi, _large) = mdat.ok_or_else(|| Failure::new("c13:no-mdat", "no mdat"))?;
    let moov_bytes = moov_bytes.ok_or_else(|| Failure::new("c13:no-moov", "no moov"))?;
    // mdat must cover exactly the media bytes written (+ the 8-byte 'wide' placeholder)
    let payload: u64 = model.iter().flatten().map(|s| s.size as u64).sum();
    ensure!(md_hi - md_lo >= payload && md_hi - md_lo <= payload + 16, "c13:mdat-size", "mdat payload is {} bytes but {} bytes of samples were written", md_hi - md_lo, payload);
    let mcase = MuxCase { major: *BRANDS[c.brand as usize % BRANDS.len()], minor: 1, compat: vec![*b"mp42"], timescale: c.timescale, tracks: c.tracks.clone(), ops: vec![], sink: 0 };
    super::c02::validate_parts(&mcase, &model, &ftyp_payload.unwrap_or_default(), &moov_bytes, md_lo, md_hi)?;
    // 64-bit chunk offsets when needed (validate_parts decodes either form exactly; make the form explicit)
    let mtop = parse::walk(&moov_bytes).map_err(|e| Failure::new("c13:moov-parse", e))?;
    let mut any_above = md_hi - md_lo + 16 > u32::MAX as u64 || (md_hi > u32::MAX as u64);
    let mut near = near32(md_hi - (md_lo - 8).min(md_hi)) || near32(md_hi);
    for trak in mtop[0].all("trak") {
        let stbl = trak.child("mdia").and_then(|m| m.child("minf")).and_then(|m| m.child("stbl"));
        if let Some(stbl) = stbl {
            if let Some(s) = stbl.child("stco") {
                for o in parse::dec_stco(s.payload(&moov_bytes)).unwrap_or_default() {
                    near |= near32(o);
                }
            }
            if let Some(s) = stbl.child("co64") {
                for o in parse::dec_co64(s.payload(&moov_bytes)).unwrap_or_default() {
                    near |= near32(o);
                    any_above |= o > u32::MAX as u64;
                }
            }
        }
    }
    for (ti, m) in model.iter().enumerate() {
        let sum: u64 = m.iter().map(|s| s.dur as u64).sum();
        let t = &c.tracks[ti];
        let img = (sum as u128 * c.timescale as u128 / t.timescale.max(1) as u128) as u64;
        near |= near32(sum) || near32(img);
        any_above |= sum > u32::MAX as u64 || img > u32::MAX as u64;
    }
    // ---- read back through the library on the same stream ----
    stream.seek(SeekFrom::Start(c.start_pos)).unwrap();
    let mut r = match guard(move || Mp4Reader::read_header(stream, end)).map_err(|p| p.failure("read_header"))? {
        Ok(r) => r,
        Err(e) => fail!(format!("c13:read_header:{}", crate::engine::normalize_msg(&e.to_string())), "reader rejects the muxer's output: {}", e),
    };
    ensure!(r.tracks().len() == c.tracks.len(), "c13:tracks", "{} tracks read back", r.tracks().len());
    for (ti, m) in model.iter().enumerate() {
        let id = ti as u32 + 1;
        let n = m.len() as u32;
        let cnt = r.sample_count(id).map_err(|e| Failure::new("c13:count", e.to_string()))?;
        ensure!(cnt == n, "c13:count", "track {}: {} samples read back, {} written", id, cnt, n);
        let sum: u64 = m.iter().map(|s| s.dur as u64).sum();
        ensure!(r.tracks()[&id].trak.mdia.mdhd.duration == sum, "c13:media-duration", "track {}: media duration {} read back, {} written", id, r.tracks()[&id].trak.mdia.mdhd.duration, sum);
        let mut start = 0u64;
        let big = m.iter().any(|s| s.size > (1 << 20));
        for k in 1..=n {
            let ms = &m[k as usize - 1];
            // big histories: read the first/last samples and everything near the 4 GiB line, check offsets for all
            let off = guard(|| r.sample_offset(id, k)).map_err(|p| p.failure("sample_offset"))?.map_err(|e| Failure::new("c13:sample_offset", format!("track {} sample {}: {}", id, k, e)))?;
            ensure!(off >= md_lo && off + ms.size as u64 <= md_hi, "c13:offset-outside-mdat", "track {} sample {}: [{}, {}) outside the mdat payload [{}, {})", id, k, off, off + ms.size as u64, md_lo, md_hi);
            let crosses = off <= (1u64 << 32) + (1 << 27) && off + ms.size as u64 + (1 << 27) >= (1u64 << 32);
            if !big || k <= 2 || k + 2 > n || crosses {
                let s = match guard(|| r.read_sample(id, k)).map_err(|p| p.failure("read_sample"))? {
                    Ok(Some(s)) => s,
                    Ok(None) => fail!("c13:none", "track {} sample {} of {} reads as None", id, k, n),
                    Err(e) => fail!("c13:read-err", "track {} sample {} of {}: {}", id, k, n, e),
                };
                ensure!(s.bytes.len() == ms.size as usize, "c13:size", "track {} sample {}: {} bytes, {} written", id, k, s.bytes.len(), ms.size);
                let f = fills[ti][k as usize - 1];
                ensure!(s.bytes.iter().all(|b| *b == f), "c13:bytes", "track {} sample {} (offset {}): payload is not the fill byte {:#x} it was written with", id, k, off, f);
                ensure!(s.start_time == start && s.duration == ms.dur && s.rendering_offset == ms.cts && s.is_sync == ms.sync, "c13:timing", "track {} sample {}: (start {}, dur {}, cts {}, sync {}) read back, expected ({}, {}, {}, {})", id, k, s.start_time, s.duration, s.rendering_offset, s.is_sync, start, ms.dur, ms.cts, ms.sync);
            }
            start += ms.dur as u64;
        }
    }
    Ok(Outcome { near, above: any_above })
}

pub fn track_pub(kind: u32, ts: u32) -> MTrack {
    track(kind, ts)
}

fn track(i: u32, ts: u32) -> MTrack {
    MTrack { kind: kind_for(i), timescale: ts, language: "und".into(), preset: false, ttype: 0 }
}

/// family (a): chunk k's offset = 2^32 + d
pub fn family_a() -> impl Strategy<Value = Case> {
    (0u32..5, -3i64..=3, 0usize..4, prop::collection::vec(prop_oneof![1 => Just(0u32), 4 => 1u32..40], 5), any::<bool>(), prop::bool::weighted(0.3)).prop_map(|(kind, d, k, sizes, two, pending)| {
        // one sample per chunk: duration = timescale
        let ts = 10u32;
        let two = two || pending;
        let mut tracks = vec![track(kind, ts)];
        if two {
            tracks.push(track(kind + 1, ts));
        }
        let mut ops = Vec::new();
        for (i, s) in sizes.iter().enumerate() {
            // pending: durations too short to complete a chunk, so both tracks still hold one at
            // write_end and the second track's chunk offset is the one that lands at 2^32 + d
            ops.push(BOp { track: 1 + (two && i % 2 == 1) as u32, size: *s, fill: 1 + i as u8, dur: if pending { 1 } else { ts }, cts: 0, sync: true });
        }
        // ftyp = 8 + 8 + 4 = 20 bytes; mdat header + wide = 16
        let before: u64 = if pending { sizes.iter().step_by(2).map(|x| *x as u64).sum() } else { sizes[..k].iter().map(|x| *x as u64).sum() };
        let target = ((1i64 << 32) + d) as u64;
        let start_pos = target - 20 - 16 - before;
        Case { family: if pending { "a:chunk-offset-at-2^32(chunks flushed by write_end)".into() } else { "a:chunk-offset-at-2^32".into() }, start_pos, timescale: 1000, tracks, ops, brand: ((d + 3) as usize * 4 + k) as u8 % 8 }
    })
}

/// family (c): durations around 2^32 in the media and the movie timescale
pub fn family_c() -> impl Strategy<Value = Case> {
    let ratios = prop_oneof![Just((1u32, 1u32)), Just((1, 2)), Just((2, 1)), Just((2, 3)), Just((3, 2)), Just((1000, 600)), Just((90000, 1000))];
    // further, short tracks before and/or after the long one: header versions are per box, and the
    // movie header must follow the longest track wherever it sits in the track list
    let others = (0usize..3, 0usize..3, 0u32..5, 0u32..3);
    (0u32..5, ratios, -2i64..=2, any::<bool>(), 1usize..4, others).prop_map(|(kind, (track_ts, movie_ts), d, target_movie, parts, (n_others, long_pos, other_kind, other_samples))| {
        let b = ((1i64 << 32) + d) as u128;
        // media duration so that either it, or its movie-timescale image, is 2^32 + d
        let sum: u128 = if target_movie { (b * track_ts as u128 + movie_ts as u128 - 1) / movie_ts as u128 } else { b };
        let mut durs: Vec<u32> = Vec::new();
        let mut left = sum;
        let n = (sum / u32::MAX as u128 + 1).max(parts as u128) as usize;
        for i in 0..n {
            let share = if i + 1 == n { left } else { (sum / n as u128).min(u32::MAX as u128) };
            let share = share.min(u32::MAX as u128);
            durs.push(share as u32);
            left -= share;
        }
        while left > 0 {
            let share = left.min(u32::MAX as u128);
            durs.push(share as u32);
            left -= share;
        }
        let long_idx = long_pos.min(n_others);
        let mut tracks = Vec::new();
        let mut ops: Vec<BOp> = Vec::new();
        for ti in 0..=n_others {
            if ti == long_idx {
                tracks.push(track(kind, track_ts));
            } else {
                tracks.push(track((other_kind + ti as u32) % 5, 1000));
                for j in 0..other_samples {
                    ops.push(BOp { track: ti as u32 + 1, size: 2 + j, fill: 0x40 + ti as u8, dur: 10 + j, cts: 0, sync: true });
                }
            }
        }
        ops.extend(durs.iter().enumerate().map(|(i, du)| BOp { track: long_idx as u32 + 1, size: 3 + (i as u32 % 3), fill: 1 + i as u8, dur: *du, cts: 0, sync: i == 0 }));
        let fam = if target_movie { "c:movie-timescale-duration-at-2^32" } else { "c:media-duration-at-2^32" };
        Case { family: if n_others == 0 { fam.into() } else { format!("{}+other-tracks", fam) }, start_pos: 0, timescale: movie_ts, tracks, ops, brand: (parts + n_others) as u8 % 8 }
    })
}

/// family (b): mdat box of exactly `target` bytes built from 64 MiB samples
pub fn family_b(kind: u32, target: u64, extra: u32) -> Case {
    let ts = 1000u32;
    let big = 1u32 << 26;
    let mut ops = Vec::new();
    let payload = target - 16;
    let n_big = (payload / big as u64) as u32 - 1;
    for i in 0..n_big {
        ops.push(BOp { track: 1, size: big, fill: 1 + (i % 4) as u8, dur: ts, cts: 0, sync: i % 8 == 0 });
    }
    let rest = payload - n_big as u64 * big as u64;
    // split the rest into two samples so that one of them straddles nothing special
    let last = rest - extra as u64 * 7;
    ops.push(BOp { track: 1, size: last as u32, fill: 0xEE, dur: ts, cts: 0, sync: false });
    for j in 0..extra {
        ops.push(BOp { track: 1, size: 7, fill: 0xF0 + j as u8, dur: ts, cts: 0, sync: false });
    }
    Case { family: "b:mdat-size-at-2^32".into(), start_pos: 0, timescale: 600, tracks: vec![track(kind, ts)], ops, brand: ((kind + extra) % 8) as u8 }
}

pub fn run(ctx: &mut Ctx) {
    ctx.stage("payload-4GiB");
    let mut cases: Vec<Case> = Vec::new();
    let b32 = 1u64 << 32;
    if ctx.quick() {
        cases.push(family_b(0, b32, 0));
        cases.push(family_b(1, b32 - 1, 2));
        // a third one above the mark with another major brand (0 + 1 -> 'qt  ')
        cases.push(family_b(0, b32 + 64, 1));
    } else {
        for kind in 0..5 {
            for (t, e) in [(b32 - 1, 0u32), (b32, 1), (b32 + 1, 2)] {
                cases.push(family_b(kind, t, e));
            }
        }
        // beyond 4 GiB: chunk offsets above 2^32 together with a large mdat
        let mut c = family_b(0, b32 + 1, 0);
        for j in 0..4 {
            c.ops.push(BOp { track: 1, size: 11, fill: 0x51 + j, dur: 1000, cts: 0, sync: true });
        }
        cases.push(c);
    }
    for (i, c) in cases.iter().enumerate() {
        // big cases only on the release profile's first shards + one on checked (they cost seconds each)
        if !ctx.enter(i as u64) {
            continue;
        }
        ctx.pre_case(c);
        let res = oracle(ctx, c);
        ctx.judge(c, res);
    }
    ctx.stage("chunk-offsets");
    let n = ctx.pick(40_000u32, 400_000u32) / ctx.nshards;
    ctx.run_prop(family_a(), n, |ctx, c| oracle(ctx, c));
    // ---- long recordings behind the 2^32 mark: thousands of chunks whose offsets all need the
    // 64-bit form (tables far longer than any short history produces) ----
    ctx.stage("long-histories");
    let lens: &[u32] = if ctx.quick() { &[4097, 5000] } else { &[1023, 4096, 4097, 5000, 8193, 12_000] };
    let mut idx = 0u64;
    for &n_chunks in lens {
        for (two, start) in [(false, (1u64 << 32) + 3), (true, (1u64 << 32) - 40_000), (true, 3u64 << 32)] {
            let my = idx;
            idx += 1;
            if !ctx.enter(my) {
                continue;
            }
            let ts = 10u32;
            let mut tracks = vec![track(4, ts)];
            if two {
                tracks.push(track(3, ts));
            }
            let ops: Vec<BOp> = (0..n_chunks * if two { 2 } else { 1 }).map(|i| BOp { track: 1 + (two && i % 2 == 1) as u32, size: 1 + i % 7, fill: 1 + (i % 200) as u8, dur: ts, cts: 0, sync: true }).collect();
            let c = Case { family: "a:long-history-beyond-2^32".into(), start_pos: start, timescale: 1000, tracks, ops, brand: (idx % 8) as u8 };
            ctx.pre_case(&c);
            let res = oracle(ctx, &c);
            ctx.judge(&c, res);
        }
    }
    ctx.stage("durations");
    let n = ctx.pick(40_000u32, 400_000u32) / ctx.nshards;
    ctx.run_prop(family_c(), n, |ctx, c| oracle(ctx, c));
}

pub fn replay(ctx: &mut Ctx, _stage: &str, case: &Value) -> Check {
    let c: Case = serde_json::from_value(case.clone()).map_err(|e| Failure::new("replay:bad-case", e.to_string()))?;
    oracle(ctx, &c)
}
