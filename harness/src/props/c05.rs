//! C05 — box wire formats conform to the ISO/IEC 14496 layouts (independent reference codec).
use super::PropMeta;
use crate::boxes::{self, EsdsS, Spec, KINDS};
use crate::engine::{Check, Ctx, Failure};
use crate::libbox::{self, BytesVsRef, DecodeRef};
use crate::refmp4::parse;
use crate::refmp4::{self, Node, HVCC_RESERVED_MASKS};
use crate::{ensure, fail};
use proptest::prelude::*;
use serde::{Deserialize, Serialize};
use serde_json::Value;

pub const META: PropMeta = PropMeta {
    level: "exploration",
    rule: "same box/shape/value space as C04 (46 kinds) against the reference codec refmp4, written from the specifications and sharing no code with the library: (i) bytes of library write_box(v) == reference encoding of the same fields, byte for byte, except the bits ISO/IEC 14496-15 reserves as '1' in hvcC (masked) and ilst item order; (ii) decoding the reference encoding yields field-for-field the same value, for the compact layout, a 64-bit size header, spare bytes after the last field (fixed-layout/table boxes), 4-byte padded MPEG-4 descriptor lengths (esds), and hvcC with reserved bits set or cleared; (iii) AudioSpecificConfig shapes (plain, escaped object type >= 32, explicit 24-bit sampling frequency) decode to the object type / frequency index / channel configuration the bitstream encodes. Non-trivial and distinct as in C04.",
    assumptions: &["conformance is judged against the harness author's reading of ISO/IEC 14496-12/-14/-15/-1/-3, VP-Codec-ISOBMFF, 3GPP TS 26.245, ISO/IEC 23009-1; reserved bits and free-form payloads are opaque", "order of optional children inside containers follows the library's writer (ISO does not prescribe it)"],
};

#[derive(Clone, Debug, Serialize, Deserialize)]
pub struct Case {
    pub spec: Spec,
    /// explicit sampling frequency for the AudioSpecificConfig stage (0 = not used)
    #[serde(default)]
    pub asc_freq: u32,
}

/// absolute (offset, mask) of the reserved-one bits of every hvcC in a rendered reference encoding
fn hvcc_masks(bytes: &[u8]) -> Vec<(usize, u8)> {
    let mut out = Vec::new();
    fn rec(boxes: &[parse::PBox], out: &mut Vec<(usize, u8)>) {
        for b in boxes {
            if &b.typ == b"hvcC" {
                for (o, m) in HVCC_RESERVED_MASKS {
                    out.push((b.start + b.header + o, m));
                }
            }
            rec(&b.children, out);
        }
    }
    rec(&parse::walk_lenient(bytes), &mut out);
    out
}

fn with_esds_pad(spec: &Spec, pad: usize) -> Option<Node> {
    match spec {
        Spec::Esds(e) => Some(boxes::esds_node(e, pad)),
        Spec::Mp4a { data_ref, channelcount, samplesize, samplerate, esds: Some(e) } => Some(Node::mixed("mp4a", refmp4::enc_audio_entry(*data_ref, *channelcount, *samplesize, *samplerate), vec![boxes::esds_node(e, pad)])),
        _ => None,
    }
}

fn with_hvcc_zero_reserved(spec: &Spec) -> Option<Node> {
    match spec {
        Spec::HvcC(h) => Some(Node::leaf("hvcC", refmp4::enc_hvcc(h, false))),
        _ => None,
    }
}

fn run_decode(spec: &Spec, bytes: &[u8], layout: &str) -> Check {
    let kind = spec.kind();
    let mut d = DecodeRef { kind, reference: bytes, layout };
    match libbox::with_lib(spec, &mut d) {
        Some(r) => r,
        None => dinf_decode(spec, bytes, layout),
    }
}

/// dinf: the library value cannot be constructed (private field); compare its JSON rendering
fn dinf_decode(spec: &Spec, bytes: &[u8], layout: &str) -> Check {
    use mp4::Mp4Box;
    let Spec::Dinf { dref_version, dref_flags, url_version, url_flags, location } = spec else { return Ok(()) };
    let w = libbox::dinf_witness();
    match libbox::decode(&w, bytes, "dinf")? {
        Err(e) => fail!(format!("c05:decode-error:dinf:{}", layout), "the library rejects the reference dinf: {}", e),
        Ok((v, pos)) => {
            ensure!(pos == bytes.len() as u64, format!("c05:decode-position:dinf:{}", layout), "decoder stopped at {} of {}", pos, bytes.len());
            let j: Value = serde_json::from_str(&v.to_json().map_err(|e| Failure::new("c05:dinf-json", e.to_string()))?).map_err(|e| Failure::new("c05:dinf-json", e.to_string()))?;
            let want = serde_json::json!({"dref": {"version": dref_version, "flags": dref_flags, "url": {"version": url_version, "flags": url_flags, "location": location}}});
            ensure!(j == want, format!("c05:decode:dinf:{}", layout), "dinf decodes to {} but the reference encodes {}", j, want);
            Ok(())
        }
    }
}

pub fn oracle(ctx: &mut Ctx, c: &Case) -> Check {
    let kind = c.spec.kind();
    let node = c.spec.node();
    let reference = node.render();
    ctx.count(&format!("{}[{}]", kind, c.spec.shape()));
    if c.spec.nontrivial_shape() {
        ctx.nontrivial(crate::engine::fp_of(&c.spec));
        ctx.sample(kind, &c.spec);
    }
    // (i) bytes
    if !libbox::has_multi_ilst(&c.spec) {
        let masks = hvcc_masks(&reference);
        let mut b = BytesVsRef { kind, reference: &reference, mask: &masks };
        if let Some(r) = libbox::with_lib(&c.spec, &mut b) {
            r?;
        } else {
            ctx.exclude("dinf value not constructible: byte comparison starts from the decoded reference");
        }
    } else {
        ctx.exclude("ilst with >= 2 items: byte comparison skipped (HashMap item order), value comparison kept");
    }
    // (ii) decode the reference encoding in several layouts
    run_decode(&c.spec, &reference, "compact")?;
    let mut large = node.clone();
    large.large = true;
    run_decode(&c.spec, &large.render(), "64-bit-header")?;
    if crate::props::c12::SPARE_KINDS.contains(&kind) {
        let mut sp = node.clone();
        sp.spare = vec![0xC1, 0xC2, 0xC3, 0xC4, 0xC5];
        run_decode(&c.spec, &sp.render(), "spare-bytes")?;
        ctx.count("layout:spare-bytes");
    }
    // (a meta box with a handler other than mdir keeps unknown children as data: not a skipped child there)
    let skips_unknown = matches!(kind, "moov" | "trak" | "mdia" | "minf" | "stbl" | "dinf" | "udta" | "moof" | "traf" | "mvex" | "ilst" | "avc1" | "mp4a") || matches!(&c.spec, Spec::Meta(boxes::MetaS::Mdir { .. }));
    if skips_unknown {
        // a skipped (unknown / free) child, with a compact and with a 64-bit header, at a position
        // derived from the case: the container must decode to the same fields
        let fp = crate::engine::fp_of(&c.spec);
        for (i, large) in [false, true].into_iter().enumerate() {
            let mut n = node.clone();
            let pos = ((fp >> (8 * i)) as usize) % (n.n_children() + 1);
            let mut filler = Node::leaf(if large { "free" } else { "zzzz" }, (0..(fp as u8 % 13)).collect());
            filler.large = large;
            n.insert_child(pos, filler);
            run_decode(&c.spec, &n.render(), if large { "unknown-child-64-bit-header" } else { "unknown-child" })?;
        }
        ctx.count("layout:unknown-child-inserted");
    }
    if let Some(n) = with_esds_pad(&c.spec, 4) {
        run_decode(&c.spec, &n.render(), "padded-descriptor-lengths")?;
        ctx.count("layout:padded-descriptor-lengths");
    }
    // streamPriority is a field the library has no place for: any value must be ignored on decode
    let prio = 1 + (crate::engine::fp_of(&c.spec) % 31) as usize;
    if let Some(n) = with_esds_pad(&c.spec, prio << 8) {
        run_decode(&c.spec, &n.render(), "esds-stream-priority")?;
    }
    if let Some(n) = with_hvcc_zero_reserved(&c.spec) {
        run_decode(&c.spec, &n.render(), "hvcC-reserved-bits-zero")?;
    }
    Ok(())
}

/// (iii) AudioSpecificConfig shapes through an mp4a sample entry
pub fn asc_oracle(ctx: &mut Ctx, c: &Case) -> Check {
    let Spec::Esds(e) = &c.spec else { return Ok(()) };
    let explicit = e.freq_index == 15;
    let mut r = boxes::esds_of(e, 0);
    r.asc = refmp4::enc_asc(e.profile, e.freq_index, c.asc_freq, e.chan_conf);
    let node = Node::mixed("mp4a", refmp4::enc_audio_entry(1, 2, 16, 48000 << 16), vec![Node::leaf("esds", refmp4::enc_esds(&r))]);
    let bytes = node.render();
    let w = mp4::Mp4aBox::default();
    ctx.count(match (e.profile >= 32, explicit) {
        (false, false) => "asc:plain",
        (true, false) => "asc:escaped-object-type",
        (false, true) => "asc:explicit-frequency",
        (true, true) => "asc:escaped+explicit-frequency",
    });
    ctx.nontrivial(crate::engine::fp_of(c));
    ctx.sample("asc", &serde_json::json!({"object_type": e.profile, "freq_index": e.freq_index, "explicit_freq": c.asc_freq, "channel_config": e.chan_conf}));
    match libbox::decode(&w, &bytes, "mp4a")? {
        Err(err) => fail!(format!("c05:asc-decode-error{}", if explicit { ":explicit-frequency" } else { "" }), "mp4a with AudioSpecificConfig (aot {}, freq index {}, chan {}) rejected: {}", e.profile, e.freq_index, e.chan_conf, err),
        Ok((v, _)) => {
            let Some(es) = v.esds.as_ref() else { fail!("c05:asc-no-esds", "esds not found") };
            let d = &es.es_desc.dec_config.dec_specific;
            let suffix = if explicit { ":explicit-frequency" } else { "" };
            ensure!(d.profile == e.profile, format!("c05:asc-object-type{}", suffix), "object type {} decoded as {}", e.profile, d.profile);
            ensure!(d.freq_index == e.freq_index, format!("c05:asc-freq-index{}", suffix), "frequency index {} decoded as {} (object type {})", e.freq_index, d.freq_index, e.profile);
            ensure!(d.chan_conf == e.chan_conf, format!("c05:asc-channel-config{}", suffix), "channel configuration {} decoded as {} (object type {}, frequency index {}, explicit frequency {})", e.chan_conf, d.chan_conf, e.profile, e.freq_index, c.asc_freq);
            Ok(())
        }
    }
}

/// the audio parameters the reader's accessors report for an AAC track of a whole file: they must be
/// the ones the AudioSpecificConfig encodes, whatever the sample entry's own samplerate field says
#[derive(Clone, Debug, Serialize, Deserialize)]
pub struct AccCase {
    pub object_type: u8,
    pub freq_index: u8,
    pub chan: u8,
    /// upper 16 bits of the mp4a samplerate field (16.16)
    pub entry_rate: u16,
}

const FREQS: [u32; 13] = [96000, 88200, 64000, 48000, 44100, 32000, 24000, 22050, 16000, 12000, 11025, 8000, 7350];

pub fn acc_oracle(ctx: &mut Ctx, c: &AccCase) -> Check {
    use crate::refmp4::movie::{build, Codec};
    let mut runner = crate::gen::fixed_runner(5);
    let mut t = crate::gen::draw(&crate::gen::table_track(1, 3), &mut runner);
    t.codec = Codec::Aac { object_type: c.object_type, freq_index: c.freq_index, chan: c.chan, bitrate: 128_000 };
    let m = crate::gen::movie_shell(vec![t]);
    let mut bytes = build(&m).bytes;
    let Some(p) = bytes.windows(4).position(|w| w == b"mp4a") else { fail!("c05:acc-harness", "no mp4a entry in the reference file") };
    bytes[p + 28..p + 30].copy_from_slice(&c.entry_rate.to_be_bytes());
    let asc_freq = FREQS[c.freq_index as usize];
    ctx.count(if c.entry_rate as u32 == asc_freq & 0xffff { "accessors:entry-rate-equals-asc-frequency" } else if c.entry_rate as u32 == (2 * asc_freq) & 0xffff || c.entry_rate as u32 == 2 * asc_freq { "accessors:entry-rate-twice-the-asc-frequency" } else { "accessors:entry-rate-unrelated" });
    ctx.nontrivial(crate::engine::fp_of(c));
    ctx.sample("accessors", c);
    let r = crate::oracle::open(&bytes)?;
    let Some(tr) = r.tracks().get(&1) else { fail!("c05:acc-no-track", "track 1 missing") };
    match crate::engine::guarded("sample_freq_index", || tr.sample_freq_index())? {
        Ok(f) => ensure!(f as u8 == c.freq_index, "c05:acc-freq-index", "sample_freq_index() = {} but the AudioSpecificConfig encodes index {} (object type {}, entry samplerate {})", f as u8, c.freq_index, c.object_type, c.entry_rate),
        Err(e) => fail!("c05:acc-freq-index-error", "sample_freq_index() failed for index {}: {}", c.freq_index, e),
    }
    match crate::engine::guarded("channel_config", || tr.channel_config())? {
        Ok(f) => ensure!(f as u8 == c.chan, "c05:acc-channel-config", "channel_config() = {} but the AudioSpecificConfig encodes {} (object type {}, entry samplerate {})", f as u8, c.chan, c.object_type, c.entry_rate),
        Err(e) => fail!("c05:acc-channel-config-error", "channel_config() failed for configuration {}: {}", c.chan, e),
    }
    if let Ok(p) = crate::engine::guarded("audio_profile", || tr.audio_profile())? {
        ensure!(p as u8 == c.object_type, "c05:acc-object-type", "audio_profile() = {} but the AudioSpecificConfig encodes object type {}", p as u8, c.object_type);
    }
    Ok(())
}

pub fn run(ctx: &mut Ctx) {
    let (k, maxlen) = ctx.pick((3000u32, 2usize), (40000u32, 3usize));
    for kind in KINDS {
        ctx.stage(&format!("conform:{}", kind));
        let s = boxes::strategy(kind, maxlen).prop_map(|spec| Case { spec, asc_freq: 0 });
        ctx.run_prop(s, (k / ctx.nshards).max(8), |ctx, c| oracle(ctx, c));
    }
    ctx.stage("asc");
    // full product of object type x frequency index x channel configuration (plain and escaped), explicit frequencies sampled
    let mut idx = 0u64;
    for aot in (1u8..=30).chain(32u8..=94) {
        for fi in 0u8..=15 {
            for ch in 0u8..16 {
                let my = idx;
                idx += 1;
                if !ctx.enter(my) {
                    continue;
                }
                let e = EsdsS { version: 0, flags: 0, es_id: 1, object_type_indication: 0x40, stream_type: 5, up_stream: false, buffer_size_db: 0, max_bitrate: 1, avg_bitrate: 2, profile: aot, freq_index: fi, chan_conf: ch };
                let freq = if fi == 15 { [48000u32, 0x17720, 0xffffff, 1, 0x123456][(my % 5) as usize] } else { 0 };
                let c = Case { spec: Spec::Esds(e), asc_freq: freq };
                let res = asc_oracle(ctx, &c);
                ctx.judge(&c, res);
            }
        }
    }
    ctx.extra.insert("asc_product_cases".into(), serde_json::json!(idx));
    // whole files: object type x frequency index x channel configuration x the sample entry's own
    // samplerate (equal to / twice / half / unrelated to the configured frequency)
    ctx.stage("api-accessors");
    let mut idx = 0u64;
    for aot in [1u8, 2, 3, 4, 5, 6, 17, 23, 29] {
        for fi in 0u8..=12 {
            for ch in 1u8..=7 {
                for mode in 0u8..5 {
                    let my = idx;
                    idx += 1;
                    if !ctx.enter(my) {
                        continue;
                    }
                    let f = FREQS[fi as usize];
                    let entry_rate = match mode {
                        0 => f,
                        1 => 2 * f,
                        2 => f / 2,
                        3 => 0,
                        _ => 44100 + my as u32 % 977,
                    } as u16;
                    let c = AccCase { object_type: aot, freq_index: fi, chan: ch, entry_rate };
                    ctx.pre_case(&c);
                    let res = acc_oracle(ctx, &c);
                    ctx.judge(&c, res);
                }
            }
        }
    }
    ctx.extra.insert("api_accessor_cases".into(), serde_json::json!(idx));
}

pub fn replay(ctx: &mut Ctx, stage: &str, case: &Value) -> Check {
    if stage == "api-accessors" {
        let c: AccCase = serde_json::from_value(case.clone()).map_err(|e| Failure::new("replay:bad-case", e.to_string()))?;
        return acc_oracle(ctx, &c);
    }
    let c: Case = serde_json::from_value(case.clone()).map_err(|e| Failure::new("replay:bad-case", e.to_string()))?;
    if stage == "asc" {
        asc_oracle(ctx, &c)
    } else {
        oracle(ctx, &c)
    }
}
