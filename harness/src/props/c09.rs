//! C09 — sample lookup in fragmented files follows movie-fragment semantics.
use super::PropMeta;
use crate::engine::{guarded, Check, Ctx, Failure, Fnv};
use crate::gen;
use crate::oracle::{check_samples, open, SampleCheckOpts};
use crate::refmp4::movie::{build, BaseMode, Movie, TrackTruth};
use crate::fail;
use serde_json::Value;
use std::io::Cursor;

pub const META: PropMeta = PropMeta {
    level: "exploration",
    rule: "fragmented movies are synthesised by the independent reference encoder: 1..4 tracks, 1..F fragments, per fragment a subset of tracks, one run per traf with 0..S samples carrying per-sample sizes, tfdt v0/v1, tfhd flag combinations (explicit base-data-offset | default-base-is-moof | neither, the last only for the first traf of a moof), per-sample / tfhd-default / trex-default durations, composition offsets present or not, positive and negative data offsets (mdat after or before its moof), filler before run data; two trafs of one track in a moof, trafs without trun, 64-bit moof/mdat headers, an occasional sample above 64 KiB, a final mdat with size 0; each movie is read as one stream, as init segment + separately opened media segment, and with that segment opened against readers that already hold fragments (the whole-file reader, a segment reader) and every sample compared with the builder's ground truth (offset, bytes, start time, duration, composition offset, count). Sync flags are not asserted. Non-trivial = some track has >= 2 fragments and (a duration default is inherited, or an explicit base offset, or a negative data offset, or a run with >= 2 samples). Distinct = structural hash of the movie.",
    assumptions: &["reference encoder renders ISO/IEC 14496-12 movie fragments correctly", "one trun per traf; 'neither' base mode only in the first traf of a moof, where ISO and the property statement agree", "a reader derived with read_fragment_header describes the segment it was given and nothing else, whatever fragments its parent reader holds (the behaviour of the unchanged tree: tracks are rebuilt from the parent's moov)"],
};

const OPTS: SampleCheckOpts = SampleCheckOpts { check_sync: false, prefix: "c09" };
const OPTS_SEG: SampleCheckOpts = SampleCheckOpts { check_sync: false, prefix: "c09seg" };
const OPTS_CHAIN: SampleCheckOpts = SampleCheckOpts { check_sync: false, prefix: "c09chain" };

pub fn fingerprint(m: &Movie) -> u64 {
    let mut h = Fnv::new();
    h.write_u64(m.tracks.len() as u64);
    for t in &m.tracks {
        h.write_u64(t.trex_dur as u64);
    }
    for f in &m.frags {
        h.write_u64(f.mdat_first as u64 | (f.trafs.len() as u64) << 8);
        for tr in &f.trafs {
            h.write_u64(tr.track as u64 | (tr.base as u64) << 8 | (tr.trun_dur as u64) << 16 | (tr.trun_cts as u64) << 17 | (tr.tfhd_dur.is_some() as u64) << 18 | (tr.lead as u64) << 24);
            h.write_u64(tr.tfdt.map(|x| x.1).unwrap_or(0));
            for s in &tr.samples {
                h.write_u64(s.size as u64 | (s.dur as u64) << 32);
                h.write_u64(s.cts as u32 as u64);
            }
        }
    }
    h.finish()
}

pub fn classify(ctx: &mut Ctx, m: &Movie) -> bool {
    let mut nontrivial = false;
    for ti in 0..m.tracks.len() {
        let trafs: Vec<_> = m.frags.iter().flat_map(|f| f.trafs.iter().map(move |tr| (f, tr))).filter(|(_, tr)| tr.track == ti).collect();
        let nfr = trafs.len();
        let inherit = trafs.iter().any(|(_, tr)| !tr.trun_dur && !tr.samples.is_empty());
        let explicit = trafs.iter().any(|(_, tr)| tr.base == BaseMode::Explicit);
        let negative = trafs.iter().any(|(f, _)| f.mdat_first);
        let multi = trafs.iter().any(|(_, tr)| tr.samples.len() >= 2);
        if nfr >= 2 && (inherit || explicit || negative || multi) {
            nontrivial = true;
        }
        if nfr >= 2 {
            ctx.count("track:>=2-fragments");
        }
        if inherit {
            ctx.count("track:inherits-default-duration");
            if trafs.iter().any(|(_, tr)| !tr.trun_dur && tr.tfhd_dur.is_none() && !tr.samples.is_empty()) {
                ctx.count("track:uses-trex-default-duration");
            }
        }
        if explicit {
            ctx.count("track:explicit-base-data-offset");
        }
        if negative {
            ctx.count("track:negative-data-offset");
        }
        if trafs.iter().any(|(_, tr)| tr.samples.is_empty()) {
            ctx.count("track:empty-run");
        }
        if trafs.iter().any(|(_, tr)| tr.tfdt.map(|x| x.0 == 1).unwrap_or(false)) {
            ctx.count("track:tfdt-v1");
        }
        if trafs.iter().any(|(_, tr)| tr.trun_cts) {
            ctx.count("track:trun-cts");
        }
    }
    if m.tracks.len() >= 2 {
        ctx.count("movie:multi-track");
    }
    if m.tracks.iter().any(|t| t.elst.as_ref().map_or(false, |e| e.iter().any(|x| x.1 != 0 && x.1 < u32::MAX as u64))) {
        ctx.count("movie:edit-list-with-non-zero-media-time");
    }
    if m.large_moof {
        ctx.count("movie:moof-with-64-bit-size-header");
    }
    nontrivial
}

/// The library keeps a single `trex` (the last one in mvex) and applies its default duration to
/// every track (open finding KF-C09-single-trex: needs a public API change). A duration / start
/// time mismatch on a track that relies on its own trex default while the last trex differs gets
/// a signature of its own, so that exactly this input class is attributed to the finding.
fn tag_multi_trex(m: &Movie, f: Failure) -> Failure {
    let is_time = ["c09:dur", "c09:start", "c09seg:dur", "c09seg:start", "c09chain:dur", "c09chain:start"].contains(&f.sig.as_str());
    if !is_time {
        return f;
    }
    let id: Option<u32> = f.detail.strip_prefix("track ").and_then(|r| r.split(' ').next()).and_then(|x| x.parse().ok());
    let Some(id) = id else { return f };
    let Some(ti) = m.tracks.iter().position(|t| t.id == id) else { return f };
    let last = m.tracks.last().map(|t| t.trex_dur).unwrap_or(0);
    let relies = m.frags.iter().flat_map(|fr| fr.trafs.iter()).any(|tr| tr.track == ti && !tr.trun_dur && tr.tfhd_dur.is_none() && !tr.samples.is_empty());
    if relies && m.tracks[ti].trex_dur != last {
        Failure::new(format!("{}:multi-trex-default", f.sig), f.detail)
    } else {
        f
    }
}

pub fn tag_multi_trex_pub(m: &Movie, f: Failure) -> Failure {
    tag_multi_trex(m, f)
}

pub fn oracle(ctx: &mut Ctx, m: &Movie) -> Check {
    oracle_inner(ctx, m).map_err(|f| tag_multi_trex(m, f))
}

fn oracle_inner(ctx: &mut Ctx, m: &Movie) -> Check {
    let built = build(m);
    if classify(ctx, m) {
        ctx.nontrivial(fingerprint(m));
        ctx.sample("nontrivial", m);
    } else {
        ctx.sample("trivial", m);
    }
    // (a) one stream
    if built.gap.is_some() {
        // physically larger than 4 GiB: served from a stream with a phantom gap; single-stream path only
        let mut r = crate::oracle::open_built(&built)?;
        ctx.count("movie:file-larger-than-4GiB");
        return check_samples(&mut r, m, &built.truth, &OPTS);
    }
    let mut r = open(&built.bytes)?;
    check_samples(&mut r, m, &built.truth, &OPTS)?;
    // (b) init segment + separately opened media segment
    let init = open(&built.bytes[..built.init_len])?;
    let seg = built.segment.clone();
    let seg_len = seg.len() as u64;
    let mut sr = match guarded("read_fragment_header", || init.read_fragment_header(Cursor::new(seg), seg_len))? {
        Ok(r) => r,
        Err(e) => fail!(format!("c09seg:open-failed:{}", crate::engine::normalize_msg(&e.to_string())), "read_fragment_header failed on a valid media segment: {}", e),
    };
    let shifted: Vec<TrackTruth> = built
        .truth
        .iter()
        .map(|t| {
            let mut t = t.clone();
            for s in t.samples.iter_mut() {
                s.offset -= built.init_len as u64;
            }
            t
        })
        .collect();
    check_samples(&mut sr, m, &shifted, &OPTS_SEG)?;
    // (c) the same segment opened against readers that already hold fragments themselves: the
    // reader of the whole single-stream file, and the segment reader derived in (b) (a chain
    // init -> segment -> segment). What the parent has read must not leak into the child.
    for (which, parent) in [("file-reader", &r), ("segment-reader", &sr)] {
        let seg = built.segment.clone();
        let mut child = match guarded("read_fragment_header", || parent.read_fragment_header(Cursor::new(seg), seg_len))? {
            Ok(c) => c,
            Err(e) => fail!(format!("c09chain:open-failed:{}", crate::engine::normalize_msg(&e.to_string())), "read_fragment_header against a {} failed on a valid media segment: {}", which, e),
        };
        check_samples(&mut child, m, &shifted, &OPTS_CHAIN)?;
    }
    ctx.count("segment-also-opened-against-readers-holding-fragments");
    Ok(())
}

pub fn run(ctx: &mut Ctx) {
    ctx.stage("random-small");
    let cases = ctx.pick(400_000u32, 3_000_000u32) / ctx.nshards;
    ctx.run_prop(gen::with_big_sample(gen::frag_movie(3, 4, 4), 0.01), cases, |ctx, m| oracle(ctx, m));
    ctx.stage("random-large");
    let cases = ctx.pick(30_000u32, 200_000u32) / ctx.nshards;
    let (mf, mr) = ctx.pick((8usize, 12usize), (30usize, 200usize));
    ctx.run_prop(gen::with_big_sample(gen::frag_movie(4, mf, mr), 0.03), cases, |ctx, m| oracle(ctx, m));
}

pub fn replay(ctx: &mut Ctx, _stage: &str, case: &Value) -> Check {
    let m: Movie = serde_json::from_value(case.clone()).map_err(|e| Failure::new("replay:bad-case", e.to_string()))?;
    oracle(ctx, &m)
}
