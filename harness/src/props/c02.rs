//! C02 — muxer output is a structurally valid, self-consistent ISO-BMFF file (independent parser).
use super::PropMeta;
use crate::engine::{Check, Ctx, Failure};
use crate::mux::{self, MSample, MuxCase};
use crate::refmp4::parse::*;
use crate::refmp4::cc;
use crate::{ensure, fail};
use serde_json::Value;

pub const META: PropMeta = PropMeta {
    level: "exploration",
    rule: "same history generator (incl. short-write sinks, refused add_track calls, occasional samples above 64 KiB) and small-scope enumeration as C01 (own seeds); the muxer's bytes are decoded by the harness' own box walker and sample-table decoders (no library code): exact tiling at every level, ftyp first, one moov, one mdat, per-track table totals against the model (N, sum of sizes, sum of durations), stsc expansion over the chunk count, stss strictly increasing in range, chunks inside the mdat payload and pairwise disjoint, mdhd/tkhd/mvhd durations (one-tick tolerance in exact integer arithmetic), 64-bit forms exactly when required. One output larger than 4 GiB (sparse stream, as in C13) goes through the same validator. Non-trivial and distinct as in C01.",
    assumptions: &["the reference parser implements ISO/IEC 14496-12 box syntax for the boxes the muxer emits", "N, sizes and durations come from the model of accepted calls, never from the file"],
};

pub struct TrackFacts {
    pub chunks: usize,
}

pub fn validate(case: &MuxCase, model: &[Vec<MSample>], bytes: &[u8]) -> Result<Vec<TrackFacts>, Failure> {
    let top = match walk(bytes) {
        Ok(t) => t,
        Err(e) => fail!("c02:tiling", "independent parser rejects the output: {}", e),
    };
    // (a history may be muxed behind bytes the caller wrote first - one free box, see
    // mux::lead_bytes; what the muxer produced then starts at the second top-level box)
    let lead = mux::lead_bytes(case.sink);
    let top: Vec<PBox> = if !lead.is_empty() && top.first().map(|b| b.typ == cc("free") && b.size == lead.len()).unwrap_or(false) { top.into_iter().skip(1).collect() } else { top };
    ensure!(!top.is_empty() && top[0].typ == cc("ftyp"), "c02:ftyp-first", "first top-level box is not ftyp");
    let moovs: Vec<&PBox> = top.iter().filter(|b| b.typ == cc("moov")).collect();
    ensure!(moovs.len() == 1, "c02:one-moov", "{} moov boxes", moovs.len());
    ensure!(top.iter().filter(|b| b.typ == cc("ftyp")).count() == 1, "c02:one-ftyp", "more than one ftyp");
    let mdats: Vec<&PBox> = top.iter().filter(|b| b.typ == cc("mdat")).collect();
    ensure!(mdats.len() == 1, "c02:one-mdat", "{} mdat boxes", mdats.len());
    for b in &top {
        ensure!(matches!(&b.typ[..], b"ftyp" | b"moov" | b"mdat" | b"free" | b"wide" | b"skip"), "c02:top-level-type", "unexpected top-level box {}", b.name());
    }
    let mdat = mdats[0];
    let (md_lo, md_hi) = ((mdat.start + mdat.header) as u64, mdat.end() as u64);
    let moov = moovs[0];
    validate_parts(case, model, top[0].payload(bytes), &bytes[moov.start..moov.end()], md_lo, md_hi)
}

/// Checks below the top level: `moov_bytes` is the complete moov box, `md_lo..md_hi` the absolute
/// byte range of the mdat payload (chunk offsets are absolute stream positions).
pub fn validate_parts(case: &MuxCase, model: &[Vec<MSample>], ftyp_payload: &[u8], moov_bytes: &[u8], md_lo: u64, md_hi: u64) -> Result<Vec<TrackFacts>, Failure> {
    let bytes = moov_bytes;
    // track i of the file is the i-th configuration the muxer accepted
    let accepted: Vec<&crate::mux::MTrack> = case.tracks.iter().filter(|t| crate::mux::expect_accept(t)).collect();
    let mtop = match walk(moov_bytes) {
        Ok(t) => t,
        Err(e) => fail!("c02:tiling", "independent parser rejects the moov box: {}", e),
    };
    ensure!(mtop.len() == 1 && mtop[0].typ == cc("moov"), "c02:one-moov", "moov bytes do not hold exactly one moov box");
    let moov = &mtop[0];
    let ftyp = dec_ftyp(ftyp_payload).map_err(|e| Failure::new("c02:ftyp", e))?;
    ensure!(ftyp.major == case.major && ftyp.minor == case.minor && ftyp.compat == case.compat, "c02:ftyp-fields", "ftyp fields differ from the configuration");
    let mvhd_b = moov.child("mvhd").ok_or_else(|| Failure::new("c02:no-mvhd", "moov without mvhd"))?;
    let mvhd = dec_mvhd(mvhd_b.payload(bytes)).map_err(|e| Failure::new("c02:mvhd", e))?;
    ensure!(mvhd.exact_len, "c02:mvhd-len", "mvhd payload length does not match its version");
    ensure!(mvhd.timescale == case.timescale, "c02:mvhd-timescale", "mvhd timescale {} != {}", mvhd.timescale, case.timescale);
    let traks = moov.all("trak");
    ensure!(traks.len() == model.len(), "c02:trak-count", "{} trak boxes for {} tracks", traks.len(), model.len());
    let mut all_chunks: Vec<(u64, u64, usize)> = Vec::new();
    let mut facts = Vec::new();
    let mut max_tkhd = 0u64;
    for (ti, trak) in traks.iter().enumerate() {
        let m = &model[ti];
        let n = m.len() as u64;
        let Some(conf) = accepted.get(ti).copied() else { fail!("c02:trak-count", "more trak boxes than accepted configurations") };
        let track_ts = if conf.preset { 1000 } else { conf.timescale };
        let need = |b: &PBox, t: &str| b.child(t).cloned().ok_or_else(|| Failure::new(format!("c02:missing-{}", t.trim()), format!("track {}: no {} box", ti + 1, t)));
        let tkhd = dec_tkhd(need(trak, "tkhd")?.payload(bytes)).map_err(|e| Failure::new("c02:tkhd", e))?;
        ensure!(tkhd.exact_len, "c02:tkhd-len", "tkhd payload length does not match its version");
        ensure!(tkhd.track_id == ti as u32 + 1, "c02:track-id", "trak {} has track_ID {}", ti + 1, tkhd.track_id);
        let mdia = need(trak, "mdia")?;
        let mdhd = dec_mdhd(need(&mdia, "mdhd")?.payload(bytes)).map_err(|e| Failure::new("c02:mdhd", e))?;
        ensure!(mdhd.exact_len, "c02:mdhd-len", "mdhd payload length does not match its version");
        ensure!(mdhd.timescale == track_ts, "c02:mdhd-timescale", "track {}: mdhd timescale {} != {}", ti + 1, mdhd.timescale, track_ts);
        need(&mdia, "hdlr")?;
        let minf = need(&mdia, "minf")?;
        need(&minf, "dinf")?;
        let stbl = need(&minf, "stbl")?;
        let stsd = need(&stbl, "stsd")?;
        ensure!(stsd.children.len() == 1, "c02:stsd-entries", "stsd has {} entries", stsd.children.len());
        let stsd_count = u32::from_be_bytes(stsd.payload(bytes)[4..8].try_into().unwrap());
        ensure!(stsd_count == 1, "c02:stsd-count", "stsd entry_count {}", stsd_count);
        // durations
        let sum_dur: u64 = m.iter().map(|s| s.dur as u64).sum();
        ensure!(mdhd.duration == sum_dur, "c02:mdhd-duration", "track {}: mdhd duration {} != summed sample durations {}", ti + 1, mdhd.duration, sum_dur);
        // |tkhd * track_ts - sum_dur * movie_ts| <= track_ts   (one movie tick)
        let num = sum_dur as u128 * case.timescale as u128;
        let got = tkhd.duration as u128 * track_ts as u128;
        let diff = if got > num { got - num } else { num - got };
        ensure!(diff <= track_ts as u128, "c02:tkhd-duration", "track {}: tkhd duration {} but {} media ticks at {}/{} = {:.3} movie ticks", ti + 1, tkhd.duration, sum_dur, case.timescale, track_ts, num as f64 / track_ts as f64);
        max_tkhd = max_tkhd.max(tkhd.duration);
        // a value that does not fit 32 bits must use the version-1 form (a version-0 box would
        // have truncated it, which the exact comparisons above already reject)
        ensure!(sum_dur <= u32::MAX as u64 || mdhd.version == 1, "c02:mdhd-version", "track {}: mdhd duration {} needs version 1", ti + 1, sum_dur);
        ensure!(tkhd.duration <= u32::MAX as u64 || tkhd.version == 1, "c02:tkhd-version", "track {}: tkhd duration {} needs version 1", ti + 1, tkhd.duration);
        // tables
        let (csize, count, table) = dec_stsz(need(&stbl, "stsz")?.payload(bytes)).map_err(|e| Failure::new("c02:stsz", e))?;
        ensure!(count as u64 == n, "c02:stsz-count", "track {}: stsz sample_count {} != {} written", ti + 1, count, n);
        let sizes: Vec<u64> = if csize != 0 { vec![csize as u64; n as usize] } else { table.iter().map(|x| *x as u64).collect() };
        for (k, s) in m.iter().enumerate() {
            ensure!(sizes[k] == s.size as u64, "c02:stsz-size", "track {}: stsz size of sample {} is {} but {} bytes were written", ti + 1, k + 1, sizes[k], s.size);
        }
        let stts = dec_stts(need(&stbl, "stts")?.payload(bytes)).map_err(|e| Failure::new("c02:stts", e))?;
        let stts_n: u64 = stts.iter().map(|e| e.0 as u64).sum();
        ensure!(stts_n == n, "c02:stts-count", "track {}: stts covers {} samples, {} written", ti + 1, stts_n, n);
        let stts_d: u128 = stts.iter().map(|e| e.0 as u128 * e.1 as u128).sum();
        ensure!(stts_d == sum_dur as u128, "c02:stts-duration", "track {}: stts total {} != {}", ti + 1, stts_d, sum_dur);
        if let Some(c) = stbl.child("ctts") {
            let ctts = dec_ctts(c.payload(bytes)).map_err(|e| Failure::new("c02:ctts", e))?;
            let cn: u64 = ctts.iter().map(|e| e.0 as u64).sum();
            ensure!(cn == n, "c02:ctts-count", "track {}: ctts covers {} samples, {} written", ti + 1, cn, n);
        }
        if let Some(s) = stbl.child("stss") {
            let stss = dec_stss(s.payload(bytes)).map_err(|e| Failure::new("c02:stss", e))?;
            for w in stss.windows(2) {
                ensure!(w[0] < w[1], "c02:stss-order", "track {}: stss not strictly increasing", ti + 1);
            }
            for e in &stss {
                ensure!(*e >= 1 && *e as u64 <= n, "c02:stss-range", "track {}: stss entry {} outside 1..={}", ti + 1, e, n);
            }
        }
        let offs: Vec<u64> = match (stbl.child("stco"), stbl.child("co64")) {
            (Some(s), None) => dec_stco(s.payload(bytes)).map_err(|e| Failure::new("c02:stco", e))?,
            (None, Some(c)) => dec_co64(c.payload(bytes)).map_err(|e| Failure::new("c02:co64", e))?,
            (Some(_), Some(_)) => fail!("c02:both-stco-co64", "track {} has both stco and co64", ti + 1),
            (None, None) => fail!("c02:no-chunk-offsets", "track {} has neither stco nor co64", ti + 1),
        };
        let stsc = dec_stsc(need(&stbl, "stsc")?.payload(bytes)).map_err(|e| Failure::new("c02:stsc", e))?;
        // expand the chunk map
        let mut per_chunk: Vec<u64> = Vec::with_capacity(offs.len());
        if !stsc.is_empty() {
            ensure!(stsc[0].0 == 1, "c02:stsc-first", "track {}: first stsc entry starts at chunk {}", ti + 1, stsc[0].0);
        } else {
            ensure!(offs.is_empty() && n == 0, "c02:stsc-empty", "track {}: empty stsc but {} chunks / {} samples", ti + 1, offs.len(), n);
        }
        for (i, e) in stsc.iter().enumerate() {
            ensure!(e.1 >= 1, "c02:stsc-zero", "track {}: stsc entry with 0 samples per chunk", ti + 1);
            ensure!(e.2 == 1, "c02:stsc-sdi", "track {}: sample_description_index {}", ti + 1, e.2);
            let next = if i + 1 < stsc.len() {
                ensure!(stsc[i + 1].0 > e.0, "c02:stsc-order", "track {}: stsc first_chunk not strictly increasing", ti + 1);
                stsc[i + 1].0 as u64
            } else {
                offs.len() as u64 + 1
            };
            ensure!(next <= offs.len() as u64 + 1, "c02:stsc-beyond", "track {}: stsc refers to chunk {} but only {} chunk offsets", ti + 1, next - 1, offs.len());
            for _ in e.0 as u64..next {
                per_chunk.push(e.1 as u64);
            }
        }
        ensure!(per_chunk.len() == offs.len(), "c02:stsc-chunks", "track {}: stsc expands to {} chunks, {} chunk offsets", ti + 1, per_chunk.len(), offs.len());
        let covered: u64 = per_chunk.iter().sum();
        ensure!(covered == n, "c02:stsc-samples", "track {}: chunk map covers {} samples, {} written", ti + 1, covered, n);
        let mut k = 0usize;
        for (ci, spc) in per_chunk.iter().enumerate() {
            let len: u64 = sizes[k..k + *spc as usize].iter().sum();
            k += *spc as usize;
            let (lo, hi) = (offs[ci], offs[ci] + len);
            ensure!(lo >= md_lo && hi <= md_hi, "c02:chunk-outside-mdat", "track {} chunk {}: [{}, {}) not inside the mdat payload [{}, {})", ti + 1, ci + 1, lo, hi, md_lo, md_hi);
            if len > 0 {
                all_chunks.push((lo, hi, ti));
            }
        }
        facts.push(TrackFacts { chunks: offs.len() });
    }
    all_chunks.sort();
    for w in all_chunks.windows(2) {
        ensure!(w[0].1 <= w[1].0, "c02:chunks-overlap", "chunks [{}, {}) of track {} and [{}, {}) of track {} overlap", w[0].0, w[0].1, w[0].2 + 1, w[1].0, w[1].1, w[1].2 + 1);
    }
    ensure!(mvhd.duration == max_tkhd, "c02:mvhd-duration", "mvhd duration {} != longest track duration {}", mvhd.duration, max_tkhd);
    Ok(facts)
}

pub fn oracle(ctx: &mut Ctx, case: &MuxCase) -> Check {
    let (run, bytes) = mux::run_mux_vec(case);
    if let Some(f) = mux::first_panic(&run) {
        return Err(f);
    }
    let v = mux::judge_calls(case, &run);
    if v.rejected_valid || v.accepted_invalid || !run.calls.iter().any(|(n, _)| n == "write_end") {
        ctx.count("hist:muxer-rejected-a-valid-call(outside-property)");
        return Ok(());
    }
    let facts = validate(case, &run.model, &bytes)?;
    let chunk_counts: Vec<usize> = facts.iter().map(|f| f.chunks).collect();
    let cls = super::c01::classify(ctx, case, &run, &chunk_counts);
    if cls.nontrivial {
        ctx.nontrivial(super::c01::fingerprint(case));
        ctx.sample("nontrivial", case);
    } else {
        ctx.sample("trivial", case);
    }
    Ok(())
}

pub fn run(ctx: &mut Ctx) {
    super::c01::run_histories(ctx, oracle);
    // one output larger than 4 GiB (the histories above stay in memory): muxed into the sparse
    // stream of C13 and judged by the same structural validator (validate_parts)
    ctx.stage("beyond-4GiB");
    if ctx.enter(0) {
        let c = super::c13::family_b(4, (1u64 << 32) + 9, 1);
        ctx.pre_case(&c);
        let res = super::c13::oracle(ctx, &c);
        ctx.judge(&c, res);
    }
    // outputs whose chunk offsets straddle 2^32 (sink handed over just below 4 GiB), including chunks
    // that are only flushed by write_end, judged by the same validator
    let n = ctx.pick(240u64, 2400u64);
    let mut runner = crate::gen::fixed_runner(7);
    let fam = super::c13::family_a();
    for i in 0..n {
        let c = crate::gen::draw(&fam, &mut runner);
        if !ctx.enter(1 + i) {
            continue;
        }
        ctx.pre_case(&c);
        let res = super::c13::oracle(ctx, &c);
        ctx.judge(&c, res);
    }
}

pub fn replay(ctx: &mut Ctx, stage: &str, case: &Value) -> Check {
    if stage == "beyond-4GiB" {
        let c: super::c13::Case = serde_json::from_value(case.clone()).map_err(|e| Failure::new("replay:bad-case", e.to_string()))?;
        return super::c13::oracle(ctx, &c);
    }
    let c: MuxCase = serde_json::from_value(case.clone()).map_err(|e| Failure::new("replay:bad-case", e.to_string()))?;
    oracle(ctx, &c)
}
