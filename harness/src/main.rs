use mp4verif::engine::{install_panic_hook, Ctx, Tier};
use mp4verif::props;
use std::collections::HashMap;
use std::path::PathBuf;

fn args_map(args: &[String]) -> HashMap<String, String> {
    let mut m = HashMap::new();
    let mut i = 0;
    while i < args.len() {
        if let Some(k) = args[i].strip_prefix("--") {
            if i + 1 < args.len() && !args[i + 1].starts_with("--") {
                m.insert(k.to_string(), args[i + 1].clone());
                i += 2;
                continue;
            }
            m.insert(k.to_string(), "1".to_string());
        }
        i += 1;
    }
    m
}

fn main() {
    let args: Vec<String> = std::env::args().collect();
    if args.len() < 2 {
        eprintln!("usage: vcheck-bin worker|replay ...");
        std::process::exit(2);
    }
    let a = args_map(&args[2..]);
    let prop = a.get("prop").cloned().unwrap_or_default();
    let profile = a.get("profile").cloned().unwrap_or_else(|| "release".into());
    let out = PathBuf::from(a.get("out").cloned().unwrap_or_else(|| ".".into()));
    let seed: u64 = a.get("seed").and_then(|s| s.parse().ok()).unwrap_or(1);
    let tier = if a.get("tier").map(|s| s.as_str()) == Some("thorough") { Tier::Thorough } else { Tier::Quick };
    install_panic_hook();
    // large stack for the worker body: deep recursion in the code under test is reported by the
    // supervisor (SIGSEGV), not masked; the harness itself needs little.
    match args[1].as_str() {
        "worker" => {
            let shard: u32 = a.get("shard").and_then(|s| s.parse().ok()).unwrap_or(0);
            let nshards: u32 = a.get("nshards").and_then(|s| s.parse().ok()).unwrap_or(1);
            let mut ctx = Ctx::new(&prop, tier, seed, shard, nshards.max(1), &profile, out);
            if let Some(o) = a.get("only") {
                if let Some((st, idx)) = o.rsplit_once(':') {
                    ctx.only = Some((st.to_string(), idx.parse().unwrap_or(0)));
                }
            }
            let meta = props::meta(&prop);
            ctx.extra.insert("meta".into(), serde_json::json!({"level": meta.level, "rule": meta.rule, "assumptions": meta.assumptions}));
            props::run(&mut ctx);
            ctx.write_result();
        }
        "replay" => {
            let file = a.get("file").expect("--file");
            let doc: serde_json::Value = serde_json::from_str(&std::fs::read_to_string(file).expect("read replay file")).expect("replay json");
            let prop = if prop.is_empty() { doc["property"].as_str().unwrap_or("").to_string() } else { prop };
            let stage = doc["stage"].as_str().unwrap_or("").to_string();
            let mut ctx = Ctx::new(&prop, tier, seed, 0, 1, &profile, out);
            ctx.strict = true;
            ctx.stage(&stage);
            let res = props::replay(&mut ctx, &stage, &doc["case"]);
            match res {
                Ok(()) => {
                    println!("REPLAY-PASS property={} profile={}", prop, profile);
                    ctx.extra.insert("replay".into(), serde_json::json!({"pass": true}));
                }
                Err(f) => {
                    println!("REPLAY-FAIL property={} profile={} sig={} detail={}", prop, profile, f.sig, f.detail);
                    ctx.extra.insert("replay".into(), serde_json::json!({"pass": false, "sig": f.sig, "detail": f.detail}));
                }
            }
            ctx.write_result();
        }
        "corpus" => {
            // seed corpus for the libFuzzer targets: reference-encoded + canned files, and box encodings
            let dir = PathBuf::from(a.get("dir").cloned().unwrap_or_else(|| "corpus".into()));
            let ctx = Ctx::new("C06", tier, seed, 0, 1, &profile, std::env::temp_dir());
            let rd = dir.join("reader_api");
            let bd = dir.join("box_fixpoint");
            std::fs::create_dir_all(&rd).unwrap();
            std::fs::create_dir_all(&bd).unwrap();
            for (i, b) in mp4verif::adv::bases(&ctx, 24).iter().enumerate() {
                std::fs::write(rd.join(format!("base{:02}", i)), &b.bytes).unwrap();
            }
            let mut runner = mp4verif::gen::fixed_runner(3);
            for (ki, k) in mp4verif::boxes::KINDS.iter().enumerate() {
                for j in 0..4 {
                    let spec = mp4verif::gen::draw(&mp4verif::boxes::strategy(k, 2), &mut runner);
                    let mut v = vec![ki as u8];
                    v.extend(spec.node().render());
                    std::fs::write(bd.join(format!("{}-{}", k.trim(), j)), v).unwrap();
                }
            }
            // dictionary of four-character codes
            let mut dict = String::new();
            for k in mp4verif::boxes::KINDS.iter().chain(["mdat", "free", "skip", "wide", "url ", "dref", "moof", "mfhd", "\\xa9nam", "\\xa9day", "covr", "desc", "mdir", "vide", "soun", "sbtl"].iter()) {
                dict.push_str(&format!("\"{}\"\n", k));
            }
            dict.push_str("\"\\x00\\x00\\x00\\x01\"\n\"\\xff\\xff\\xff\\xff\"\n\"\\x00\\x00\\x00\\x00\"\n\"\\x00\\x00\\x00\\x08\"\n");
            std::fs::write(dir.join("mp4.dict"), dict).unwrap();
            println!("corpus written to {}", dir.display());
        }
        "bench" => {
            let cx = mp4verif::adv::driver_context();
            let b = mp4verif::refmp4::movie::build(&mp4verif::adv::kitchen_sink(0)).bytes;
            let t0 = std::time::Instant::now();
            let mut calls = 0;
            for _ in 0..200 {
                let ex = mp4verif::driver::exercise(&b, &cx);
                calls = ex.calls.len();
            }
            println!("exercise(valid sink0, {} bytes): {:?} per input, {} calls", b.len(), t0.elapsed() / 200, calls);
            let t0 = std::time::Instant::now();
            for _ in 0..200 {
                let _ = mp4verif::oracle::open(&b);
            }
            println!("open only: {:?}", t0.elapsed() / 200);
        }
        _ => {
            eprintln!("unknown mode");
            std::process::exit(2);
        }
    }
}
