// Tells the harness where the library's sources are (the `mp4` path dependency of Cargo.toml), so
// that string literals of the code under test can be harvested as a dictionary at run time.
fn main() {
    let toml = std::fs::read_to_string("Cargo.toml").unwrap_or_default();
    let path = toml
        .lines()
        .find(|l| l.trim_start().starts_with("mp4 ") || l.trim_start().starts_with("mp4="))
        .and_then(|l| l.split("path = \"").nth(1))
        .and_then(|r| r.split('"').next())
        .unwrap_or("/repo")
        .to_string();
    println!("cargo:rustc-env=VERIF_REPO_SRC={}/src", path);
    println!("cargo:rerun-if-changed=Cargo.toml");
    println!("cargo:rerun-if-changed=build.rs");
}
