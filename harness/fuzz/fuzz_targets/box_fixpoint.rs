#![no_main]
//! libFuzzer target for C04 (converse direction): first byte selects the box kind, the rest are the
//! bytes handed to that kind's decoder; accepted bytes must re-encode to a fixpoint.
use libfuzzer_sys::fuzz_target;
use mp4verif::boxes::{self, Spec, KINDS};
use mp4verif::engine::install_panic_hook;
use mp4verif::libbox::{self, Converse, Visitor};
use std::sync::Once;

static INIT: Once = Once::new();
thread_local! {
    static WITNESS: std::cell::RefCell<Vec<Spec>> = std::cell::RefCell::new(Vec::new());
}

fuzz_target!(|data: &[u8]| {
    INIT.call_once(|| {
        install_panic_hook();
    });
    if data.len() < 9 || data.len() > 4096 {
        return;
    }
    // only boxes that claim no more bytes than are given (a standalone decoder has no parent that
    // would bound the declared size; unbounded sizes are C08's subject, through the reader)
    let declared = u32::from_be_bytes([data[1], data[2], data[3], data[4]]) as usize;
    if declared == 1 || declared > data.len() - 1 {
        return;
    }
    WITNESS.with(|w| {
        let mut w = w.borrow_mut();
        if w.is_empty() {
            let mut runner = proptest_runner();
            for k in KINDS {
                w.push(mp4verif::gen::draw(&boxes::strategy(k, 1), &mut runner));
            }
        }
        let spec = &w[data[0] as usize % w.len()];
        let kind = spec.kind();
        let bytes = &data[1..];
        let mut cv = Converse { kind, bytes, compare_bytes: false, accepted: false, reencoded: false };
        let res = match libbox::with_lib(spec, &mut cv) {
            Some(r) => r,
            None => cv.visit(&libbox::dinf_witness()),
        };
        if let Err(f) = res {
            eprintln!("VERIF-FUZZ-VIOLATION sig={} detail={}", f.sig, f.detail);
            std::process::abort();
        }
    });
});

fn proptest_runner() -> mp4verif::gen::Runner {
    mp4verif::gen::fixed_runner(7)
}
