#![no_main]
//! libFuzzer target: byte string -> driver::exercise -> oracle selected by VERIF_ORACLE (C06|C07|C08).
//! Library panics are caught by the harness' guard; a property violation that is not an open known
//! finding aborts the process so that libFuzzer saves the input.
use libfuzzer_sys::fuzz_target;
use mp4verif::engine::{install_panic_hook, Ctx, Tier};
use mp4verif::props::advp;
use std::sync::Once;

static INIT: Once = Once::new();
thread_local! {
    static STATE: std::cell::RefCell<Option<(Ctx, mp4verif::driver::Context)>> = std::cell::RefCell::new(None);
}

fuzz_target!(|data: &[u8]| {
    INIT.call_once(|| {
        // replace libfuzzer-sys' abort-on-any-panic hook: panics inside guard() are recorded instead
        install_panic_hook();
    });
    STATE.with(|st| {
        let mut st = st.borrow_mut();
        if st.is_none() {
            let prop = std::env::var("VERIF_ORACLE").unwrap_or_else(|_| "C06".into());
            let out = std::env::temp_dir();
            let ctx = Ctx::new(&prop, Tier::Thorough, 1, 0, 1, "fuzz", out);
            *st = Some((ctx, mp4verif::adv::driver_context()));
        }
        let (ctx, cx) = st.as_mut().unwrap();
        if data.len() > 1 << 16 {
            return;
        }
        let ex = mp4verif::driver::exercise(data, cx);
        let case = mp4verif::adv::AdvCase { bytes: data.to_vec(), desc: "libFuzzer".into(), touched: vec![], base: 0, baseline: None };
        let res = match ctx.prop.as_str() {
            "C07" => advp::oracle_c07(ctx, &case, &ex),
            "C08" => advp::oracle_c08(ctx, &case, &ex),
            _ => advp::oracle_c06(ctx, &case, &ex),
        };
        if let Err(f) = res {
            if ctx.kf.match_open(&ctx.prop, &f.sig).is_none() {
                eprintln!("VERIF-FUZZ-VIOLATION sig={} detail={}", f.sig, f.detail);
                std::process::abort();
            }
        }
    });
});
