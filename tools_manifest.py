#!/usr/bin/env python3
"""Regenerates MANIFEST.json from the table below (kept in one place so it stays valid)."""
import json, os
ROOT = os.path.dirname(os.path.abspath(__file__))

CHECKS = {
 # id: (category, technique, level text, level_note, design_ref)
}
NOT_APPLICABLE = {}

def load():
    import importlib.util
    spec = importlib.util.spec_from_file_location("claims", os.path.join(ROOT, "claims.py"))
    m = importlib.util.module_from_spec(spec); spec.loader.exec_module(m)
    return m

def main():
    c = load()
    props = [json.loads(l)["id"] for l in open(os.path.join(ROOT, "properties.jsonl"))]
    checks = []
    for pid in props:
        if pid in c.CHECKS:
            cat, technique, text, note, ref = c.CHECKS[pid]
            checks.append({
                "property_id": pid,
                "quick_cmd": "./vcheck %s quick" % pid,
                "thorough_cmd": "./vcheck %s thorough" % pid,
                "evidence_file": "evidence/%s.json" % pid,
                "replay_cmd_template": "./vcheck %s quick --replay {path}" % pid,
                "engine": "mp4verif",
                "level_claimed": {"category": cat, "text": text, "design_ref": ref},
                "level_note": note,
                "technique": technique,
            })
    na = [{"property_id": p, "reason": c.NOT_APPLICABLE.get(p, "check not built yet in this session; see DESIGN.md section 8 (implementation order)")} for p in props if p not in c.CHECKS]
    man = {
        "version": 1,
        "setup_cmd": "cd harness && CARGO_NET_OFFLINE=true cargo build --quiet --profile release --bin vcheck-bin && CARGO_NET_OFFLINE=true cargo build --quiet --profile checked --bin vcheck-bin",
        "hooks": c.HOOKS,
        "engines": c.ENGINES,
        "checks": checks,
        "not_applicable": na,
        "notes": c.NOTES,
    }
    with open(os.path.join(ROOT, "MANIFEST.json"), "w") as f:
        json.dump(man, f, indent=1); f.write("\n")
    print("MANIFEST.json: %d checks, %d not_applicable" % (len(checks), len(na)))

if __name__ == "__main__":
    main()
