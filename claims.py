# Source of truth for MANIFEST.json (run tools_manifest.py after editing).
HOOKS = {
    "guard": "none (no source hooks are needed: unnameable pub types are reached through type inference from witness values)",
    "enable": "n/a - checks build /repo unmodified as a path dependency of /verif/harness (cargo rebuilds it whenever a source file changed)",
    "baseline_off_cmd": "cd /repo && cargo test --workspace --no-fail-fast --offline",
    "source_commits": [],
    "add_only": True,
}
ENGINES = [
    {"name": "mp4verif", "path": "harness", "serves_properties": [], "kind_free_text": "Rust crate: proptest strategies + small-scope enumerators, independent ISO-BMFF reference encoder/parser (refmp4) as oracle, instrumented streams, counting allocator; python supervisor ./vcheck shards the case stream over worker processes in two build profiles (wrapping and overflow-checked) and merges evidence"},
]
NOTES = "All checks: ./vcheck <ID> <quick|thorough> [--replay FILE]; exit 0 held / 1 VIOLATION / 2 inconclusive. VERIF_SEED seeds every generator (0 is remapped). Known findings: known_findings.json + findings/."

X = "exploration"
F = "fault_enumeration"
CHECKS = {
 "C01": (X, "stateful property-based testing: generated muxer call histories (proptest vec of ops + interpreter, exhaustive for <=3/4 ops) against a per-track model; read back through the demuxer",
         "Every generated history is muxed, reopened and every sample compared with the model of accepted samples; rejected calls are checked to return Err and to leave the output byte-identical. Small histories are enumerated exhaustively over a 48-letter op alphabet, long ones sampled. Bounded search.",
         "trusts Mp4Reader for read-back (checked independently by C03), proptest; histories <= 400 ops; sinks: plain, short writes, non-zero start, stale bytes behind the start", "DESIGN.md 4/C01"),
 "C02": (X, "stateful property-based testing of the muxer; output decoded by an independent ISO-BMFF parser (box tiling + sample-table cross-checks against the model)",
         "Every generated history is muxed and the bytes are judged by a parser that shares no code with the library: exact tiling, table totals vs the model, chunk placement, duration relations in exact integer arithmetic; plus 240 outputs whose chunk offsets straddle 2^32 (also chunks flushed only by write_end). Bounded search over histories.",
         "trusts the harness' reference parser; totals come from the model of accepted calls", "DESIGN.md 4/C02"),
 "C03": (X, "property-based testing: small-scope exhaustive enumeration of chunk maps + proptest random tables, ground-truth oracle from an independent encoder",
         "Every sample of every generated file is looked up through sample_count/sample_offset/read_sample and compared with the ground truth kept by the reference encoder that produced the file; chunk-map structure is enumerated exhaustively for small N, other dimensions (incl. edit lists and an mvex box in files without fragments) and large N are sampled. Bounded search: absence beyond the explored scope is not shown.",
         "trusts the harness' reference encoder (no library code) and proptest; sizes <= 300 B/sample", "DESIGN.md 4/C03"),
 "C04": (X, "property-based testing over the box value space: per-kind proptest strategies (46 kinds, shapes x values inside wire width), round-trip / size-exactness oracle in three stream contexts, re-encode fixpoint on mutated and reference encodings",
         "For every generated value of every box kind the encoder's return value, box_size(), header and byte count must agree and decoding must restore an equal value and leave the stream exactly at the box end even with siblings or garbage behind; for bytes the decoder accepts (mutated encodings, reference encodings with 64-bit headers / spare bytes) re-encoding must be a fixpoint.",
         "representable domain per DESIGN Appendix A; dinf values only via decoding (private field)", "DESIGN.md 4/C04"),
 "C05": (X, "differential property-based testing against an independent reference codec (refmp4): byte diff of encoder output, field diff of decoder output on reference bytes in compact / 64-bit-header / spare-byte / padded-descriptor layouts, exhaustive AudioSpecificConfig product, whole-file accessor stage (object type x frequency index x channel configuration x sample-entry rate)",
         "The library's bytes must equal the reference encoder's for the same fields (reserved bits masked, ilst order ignored) and the library must decode every reference layout to the same fields; the AudioSpecificConfig product (93 object types x 16 frequency indices x 16 channel configurations) is enumerated, and the reader's audio accessors must report the configured values whatever the sample entry's own rate field says. One open known finding (explicit-frequency channel configuration) is tolerated by signature.",
         "conformance judged against the harness author's reading of the specifications", "DESIGN.md 4/C05"),
 "C06": (X, "structure-aware fuzzing: exhaustive single / strided pairwise boundary-value substitution into every field of reference-encoded and canned files, box-tree surgery, prefixes and proptest havoc, also consistent inflation of counts with ancestor sizes, a mutated box twice in a row, amplification (over-reading trak/traf x 200-400), 60 000 boxes nested in one another inside every container, stz2 in place of stsz, 100 000-entry tables, valid structures with unusual content, and the stand-alone box decoders with their renderings, through an API driver with a panic/abort oracle in two build profiles",
         "Every generated input is opened (as file, as fragment against two init segments, with segments against it) and every read-side call is made under catch_unwind in a wrapping and an overflow-checked build; process death is attributed to the case and re-confirmed in a fresh process. Search, not proof: absence is shown only for the explored inputs.",
         "trusts the reference encoder for seed files and the field map; mutated inputs <= ~6 KiB; scale stages up to ~1 MiB", "DESIGN.md 4/C06"),
 "C07": (X, "structure-aware fuzzing focused on size/count/offset fields with a deterministic resource oracle (operation-counting stream with hard budget, thread CPU time absolute and relative to an ordered-table baseline of the same length, supervisor stall detection); incl. an 'offset-overflow' stage (chunk offset, samples-per-chunk, count and size raised together)",
         "Each call's stream operations and bytes are counted against 24*n + 65536 (open) / 64 + (n + sample size)/64 (later calls); a non-advancing loop exhausts the budget and is reported deterministically; CPU blow-ups (> 1 s per call, normal: microseconds) are confirmed by a second execution; hangs without I/O are killed by the supervisor and re-confirmed alone.",
         "CPU linearity only as a blow-up detector; bounds 20x above the measured maximum of 3 operations per input byte", "DESIGN.md 4/C07"),
 "C08": (X, "structure-aware fuzzing focused on count/length/size fields with a counting global allocator as oracle",
         "Per call the total bytes requested and the largest single request are compared with 256*n + 8 MiB and 64*n + 4 MiB; huge requests are satisfied lazily and observed in-process, refused ones abort the worker and are attributed by the supervisor.",
         "constant term covers what 8/16-bit counts can legally demand", "DESIGN.md 4/C08"),
 "C09": (X, "property-based testing: proptest-generated fragmented movies rendered by an independent encoder, ground-truth oracle, single-stream and init+segment forms",
         "Every sample of every generated fragmented movie is compared with the builder's ground truth (offset, bytes, start, duration, composition offset, count) both when fragments follow moov in one stream and when the media segment is opened against the init segment. One open known finding (single trex) is tolerated by signature and re-confirmed from its witness on every run.",
         "trusts the reference encoder; one run per traf; sync flags not asserted", "DESIGN.md 4/C09"),
 "C10": (F, "fault injection enumerated over every stream-call index x fault kind (error, zero-length transfer) for opening, sample reads and whole muxing histories; short-transfer / EINTR streams compared with a full-transfer baseline",
         "For every explored file and history the stream calls are counted in a fault-free run and then each single call index is failed in turn: the public call in progress must return Error::IoError (with the injected marker), never Ok, another variant or a panic. Streams limited to 1..64 bytes per call with sporadic Interrupted must give identical boxes, samples and output bytes.",
         "one fault per run; subjects: 4 canned + ~14 reference-encoded files, 160 (thorough 600) generated histories + 2 long ones (300 / 540 samples)", "DESIGN.md 4/C10"),
 "C11": (F, "crash-point enumeration: every prefix length of files in every layout, compared with the complete file's samples",
         "Every cut position 0..len of every subject file (and media segment against its intact init) is opened with the prefix's own length; a successful open must return, for every sample id of the complete file, an error, None beyond its own count, or exactly the complete file's sample. Panics and budget exhaustion (hangs) are violations.",
         "baseline = library's reading of the complete file", "DESIGN.md 4/C11"),
 "C12": (X, "metamorphic property-based testing: logical movie x layout transformations (exhaustive single transformations over all sites of the rendered box tree, random combinations), equality with the base and with the builder's ground truth of the variant; 32- vs 64-bit header of a box inserted into non-iterating containers must be treated alike",
         "Variants that differ only in physical layout (inserted free/unknown boxes incl. 64-bit headers, sibling order, 64-bit size headers, spare bytes) must open to the same tracks, accessor values, metadata and samples; sample offsets must equal the reference encoder's truth for the variant.",
         "sites restricted to what the statement names; trusts the reference encoder", "DESIGN.md 4/C12"),
 "C13": (X, "boundary-value property-based testing on a sparse stream: generated histories whose start position, cumulative payload and durations land just below/at/above 2^32, under eight major brands; independent parser + read-back oracle",
         "Muxer and reader share a run-length-encoded sparse stream so real > 4 GiB outputs are produced and read back; the harness' parser checks that each 64-bit form (largesize mdat, co64, version 1) is used whenever the value exceeds 32 bits and that every stored value is exact.",
         "single samples <= 64 MiB; uniform fill bytes per sample", "DESIGN.md 4/C13"),
 "C14": (X, "property-based testing: full enumeration of the AAC enum product and AVC profile/compat bytes + proptest random configurations, accessor-vs-configuration oracle",
         "Each generated configuration is muxed with a short history, reopened, and every accessor compared with the configuration (independent AVC profile table; exact-arithmetic one-tick duration tolerance). AAC enum product and profile/compat pairs are exhaustive, the rest sampled.",
         "trusts the harness' tables; durations kept below 2^50 movie ticks", "DESIGN.md 4/C14"),
 "C15": (X, "stateful property-based testing: generated call schedules on one reader vs single calls on fresh readers; repeated mux/parse runs compared",
         "Each call of a generated schedule (samples, offsets, counts, accessors; valid, missing and out-of-range ids; repeats) must return what a fresh reader returns for that single call; the same history muxed twice (second time on another thread) must give identical bytes - also with a real pause before a generated call - and the same bytes opened twice equal structures; a soak of 260 000 repetitions of one call and canary boxes decoded throughout the run guard against state outside the readers; and JSON.",
         "results normalised to text; schedules <= 200 calls", "DESIGN.md 4/C15"),
 "C16": (X, "exhaustive enumeration of every finite mapping domain (2^32 codes, 2^16 language codes - stand-alone and through whole files of 6 major brands, 2^16 profile pairs, all u8/u16 raw values) against independent tables",
         "Each mapping is evaluated on its complete domain and compared with tables written in the harness from the specifications; for these domains the check is a decision, not a sample (exhaustive: true). Text form of non-UTF-8 codes and the 2^32 raw values of FixedPointU16/DataType are complete only in the thorough tier.",
         "trusts the harness' tables (four-character codes, ISO-639 packing, AAC tables, H.264 profile_idc)", "DESIGN.md 4/C16"),
 "C17": (X, "stateful property-based testing over full argument ranges (incl. invalid), panic/abort oracle in two build profiles, plus C01/C02 oracles on all-Ok histories; call sequences that go on after write_end and after a failed sink call; sinks handed over just below / beyond 4 GiB",
         "Every call of every generated history is wrapped in catch_unwind in a wrapping and an overflow-checked build; process death is caught by the supervisor and confirmed in a fresh process. All-Ok representable histories additionally pass the C02 and C01 oracles. Further stages: 1..3 rounds of (write_sample,) write_end after the history's write_end; histories muxed into a sink of which one call fails, the caller continuing - later calls may return anything but must not panic. Bounded search.",
         "typed enum arguments cannot take undeclared values; histories <= 40 ops, <= 100 tracks", "DESIGN.md 4/C17"),
 "C18": (X, "property-based testing: proptest-generated iTunes metadata rendered by an independent encoder; expected-value oracle plus metamorphic relation (unknown items, locale words, 64-bit headers and a decoy meta in moov are no-ops)",
         "Accessor results are compared with the values the reference encoder wrote, over all item subsets, encodings, lengths, handler types and meta styles; removing unknown items must not change any answer.",
         "trusts the reference encoder; text payloads valid UTF-8; undefined year encodings not asserted", "DESIGN.md 4/C18"),
}
NOT_APPLICABLE = {}
for _e in ENGINES:
    _e["serves_properties"] = sorted(CHECKS)
